//! rlfacts: a rustc_private driver that projects the type-checked program (items + MIR
//! bodies with resolved callees) of one crate into a JSON fact file.
//!
//! It contains NO rule. Used as RUSTC_WORKSPACE_WRAPPER:
//!   argv = [rlfacts, <real rustc>, rustc args...]
//! Env: RLFACTS_OUT  = path of the JSON file to write (one write per process)
//!      RLFACTS_CRATE = crate name to dump (default raft_log); other crates compile normally.
#![feature(rustc_private)]
#![allow(clippy::all)]

extern crate rustc_abi;
extern crate rustc_driver;
extern crate rustc_hir;
extern crate rustc_interface;
extern crate rustc_middle;
extern crate rustc_span;

use std::collections::HashMap;
use std::fmt::Write as _;

use rustc_driver::Compilation;
use rustc_hir::def::DefKind;
use rustc_hir::def_id::DefId;
use rustc_hir::def_id::LocalDefId;
use rustc_interface::interface::Compiler;
use rustc_middle::mir;
use rustc_middle::mir::PlaceTy;
use rustc_middle::ty::print::PrintTraitRefExt;
use rustc_middle::ty;
use rustc_middle::ty::TyCtxt;
use rustc_span::Span;

// ------------------------------------------------------------------------------------
// tiny JSON builder
// ------------------------------------------------------------------------------------

fn esc(s: &str) -> String {
    let mut o = String::with_capacity(s.len() + 2);
    o.push('"');
    for c in s.chars() {
        match c {
            '"' => o.push_str("\\\""),
            '\\' => o.push_str("\\\\"),
            '\n' => o.push_str("\\n"),
            '\r' => o.push_str("\\r"),
            '\t' => o.push_str("\\t"),
            c if (c as u32) < 0x20 => {
                let _ = write!(o, "\\u{:04x}", c as u32);
            }
            c => o.push(c),
        }
    }
    o.push('"');
    o
}

struct Obj(Vec<String>);
impl Obj {
    fn new() -> Self {
        Obj(vec![])
    }
    fn s(mut self, k: &str, v: &str) -> Self {
        self.0.push(format!("{}:{}", esc(k), esc(v)));
        self
    }
    fn raw(mut self, k: &str, v: String) -> Self {
        self.0.push(format!("{}:{}", esc(k), v));
        self
    }
    fn n(mut self, k: &str, v: i128) -> Self {
        self.0.push(format!("{}:{}", esc(k), v));
        self
    }
    fn b(mut self, k: &str, v: bool) -> Self {
        self.0.push(format!("{}:{}", esc(k), if v { "true" } else { "false" }));
        self
    }
    fn opt_s(self, k: &str, v: Option<String>) -> Self {
        match v {
            Some(v) => self.s(k, &v),
            None => self,
        }
    }
    fn done(self) -> String {
        format!("{{{}}}", self.0.join(","))
    }
}
fn arr(v: Vec<String>) -> String {
    format!("[{}]", v.join(","))
}

// ------------------------------------------------------------------------------------

struct Cx<'tcx> {
    tcx: TyCtxt<'tcx>,
    keys: HashMap<DefId, String>,
}

impl<'tcx> Cx<'tcx> {
    fn key(&self, d: DefId) -> String {
        if let Some(k) = self.keys.get(&d) {
            return k.clone();
        }
        self.tcx.def_path_str(d)
    }

    fn loc(&self, sp: Span) -> (String, usize, usize) {
        let sp = if sp.from_expansion() { sp.source_callsite() } else { sp };
        let sm = self.tcx.sess.source_map();
        let lo = sm.lookup_char_pos(sp.lo());
        let hi = sm.lookup_char_pos(sp.hi());
        let f = match &lo.file.name {
            rustc_span::FileName::Real(r) => match r.local_path() {
                Some(p) => p.display().to_string(),
                None => format!("{:?}", lo.file.name),
            },
            other => format!("{:?}", other),
        };
        (f, lo.line, hi.line)
    }

    fn macros(&self, sp: Span) -> Vec<String> {
        let mut v = vec![];
        if sp.from_expansion() {
            for e in sp.macro_backtrace() {
                v.push(format!("{}", e.kind.descr()));
            }
        }
        v
    }

    fn ty_s(&self, t: ty::Ty<'tcx>) -> String {
        format!("{}", t)
    }

    fn field_name(&self, pty: PlaceTy<'tcx>, idx: usize) -> (Option<String>, Option<String>) {
        match pty.ty.kind() {
            ty::Adt(adt, _) => {
                let vi = match pty.variant_index {
                    Some(v) => v,
                    None => {
                        if adt.is_enum() {
                            return (None, Some(self.tcx.def_path_str(adt.did())));
                        }
                        rustc_abi::FIRST_VARIANT
                    }
                };
                let var = adt.variant(vi);
                let name = var
                    .fields
                    .iter()
                    .nth(idx)
                    .map(|f| f.name.to_string());
                (name, Some(self.tcx.def_path_str(adt.did())))
            }
            ty::Closure(did, _) => {
                // upvar
                let names = self.tcx.closure_saved_names_of_captured_variables(*did);
                let n = names.iter().nth(idx).map(|s| s.to_string());
                (n, Some(format!("closure:{}", self.key(*did))))
            }
            _ => (None, None),
        }
    }

    fn place(&self, body: &mir::Body<'tcx>, p: mir::Place<'tcx>) -> String {
        let mut pty = PlaceTy::from_ty(body.local_decls[p.local].ty);
        let mut proj = vec![];
        for elem in p.projection.iter() {
            let j = match elem {
                mir::ProjectionElem::Deref => "\"deref\"".to_string(),
                mir::ProjectionElem::Field(f, _) => {
                    let (n, adt) = self.field_name(pty, f.as_usize());
                    Obj::new()
                        .n("f", f.as_usize() as i128)
                        .opt_s("n", n)
                        .opt_s("adt", adt)
                        .done()
                }
                mir::ProjectionElem::Downcast(name, vi) => {
                    let nm = match name {
                        Some(s) => s.to_string(),
                        None => format!("#{}", vi.as_usize()),
                    };
                    Obj::new().s("dc", &nm).done()
                }
                mir::ProjectionElem::Index(l) => Obj::new().n("idx", l.as_usize() as i128).done(),
                mir::ProjectionElem::ConstantIndex { offset, from_end, .. } => Obj::new()
                    .n("cidx", offset as i128)
                    .b("from_end", from_end)
                    .done(),
                mir::ProjectionElem::Subslice { .. } => "\"subslice\"".to_string(),
                mir::ProjectionElem::OpaqueCast(_) => "\"opaque\"".to_string(),
                mir::ProjectionElem::UnwrapUnsafeBinder(_) => "\"unwrap_binder\"".to_string(),
            };
            proj.push(j);
            pty = pty.projection_ty(self.tcx, elem);
        }
        Obj::new()
            .n("l", p.local.as_usize() as i128)
            .raw("proj", arr(proj))
            .done()
    }

    fn const_fn(&self, body_def: DefId, c: &mir::ConstOperand<'tcx>) -> Option<String> {
        // returns JSON fragment fields for FnDef / closure constants
        let t = c.const_.ty();
        match t.kind() {
            ty::FnDef(did, args) => Some(self.callee_obj(body_def, *did, args).done()),
            _ => None,
        }
    }

    fn generic_args(&self, args: ty::GenericArgsRef<'tcx>) -> String {
        let mut v = vec![];
        for a in args.iter() {
            let mut o = Obj::new().s("s", &format!("{}", a));
            if let Some(t) = a.as_type() {
                match t.kind() {
                    ty::Closure(did, _) => {
                        o = o.s("closure", &self.key(*did));
                    }
                    ty::FnDef(did, _) => {
                        o = o.s("fndef", &self.key(*did));
                    }
                    ty::Param(p) => {
                        o = o.s("param", &p.name.to_string());
                    }
                    _ => {}
                }
            }
            v.push(o.done());
        }
        arr(v)
    }

    fn callee_obj(&self, body_def: DefId, did: DefId, args: ty::GenericArgsRef<'tcx>) -> Obj {
        let tcx = self.tcx;
        let mut o = Obj::new()
            .s("path", &tcx.def_path_str(did))
            .s("full", &tcx.def_path_str_with_args(did, args))
            .b("local", did.is_local())
            .raw("gargs", self.generic_args(args));
        if did.is_local() {
            o = o.s("key", &self.key(did));
        }
        // trait method?
        if let Some(tr) = tcx.trait_of_assoc(did) {
            o = o.s("trait", &tcx.def_path_str(tr));
            if let Some(first) = args.iter().next() {
                o = o.s("self_ty", &format!("{}", first));
            }
        } else if let Some(imp) = tcx.impl_of_assoc(did) {
            let st = tcx.type_of(imp).instantiate(tcx, args).skip_norm_wip();
            o = o.s("self_ty", &format!("{}", st));
        }
        let env = ty::TypingEnv::post_analysis(tcx, body_def);
        match ty::Instance::try_resolve(tcx, env, did, args) {
            Ok(Some(inst)) => {
                let rd = inst.def_id();
                let kind = match inst.def {
                    ty::InstanceKind::Item(_) => "item",
                    ty::InstanceKind::Intrinsic(_) => "intrinsic",
                    ty::InstanceKind::VTableShim(_) => "vtable_shim",
                    ty::InstanceKind::ReifyShim(..) => "reify_shim",
                    ty::InstanceKind::FnPtrShim(..) => "fnptr_shim",
                    ty::InstanceKind::Virtual(..) => "virtual",
                    ty::InstanceKind::ClosureOnceShim { .. } => "closure_once_shim",
                    ty::InstanceKind::DropGlue(..) => "drop_glue",
                    ty::InstanceKind::CloneShim(..) => "clone_shim",
                    _ => "other",
                };
                o = o
                    .s("rkind", kind)
                    .s("rpath", &tcx.def_path_str(rd))
                    .s("rfull", &tcx.def_path_str_with_args(rd, inst.args))
                    .b("rlocal", rd.is_local());
                if rd.is_local() {
                    o = o.s("rkey", &self.key(rd));
                }
                o = o.raw("rgargs", self.generic_args(inst.args));
            }
            _ => {}
        }
        o
    }

    fn operand(&self, body_def: DefId, body: &mir::Body<'tcx>, op: &mir::Operand<'tcx>) -> String {
        match op {
            mir::Operand::Copy(p) => Obj::new().s("k", "copy").raw("p", self.place(body, *p)).done(),
            mir::Operand::Move(p) => Obj::new().s("k", "move").raw("p", self.place(body, *p)).done(),
            mir::Operand::Constant(c) => {
                let mut o = Obj::new()
                    .s("k", "const")
                    .s("ty", &self.ty_s(c.const_.ty()))
                    .s("v", &format!("{}", c.const_));
                let env = ty::TypingEnv::post_analysis(self.tcx, body_def);
                let t = c.const_.ty();
                if t.is_integral() || t.is_bool() || t.is_char() {
                    if let Some(si) = c.const_.try_eval_scalar_int(self.tcx, env) {
                        let bits = si.to_bits(si.size());
                        o = o.s("int", &format!("{}", bits));
                    }
                }
                if let Some(f) = self.const_fn(body_def, c) {
                    o = o.raw("fn", f);
                }
                o.done()
            }
            #[allow(unreachable_patterns)]
            _ => Obj::new().s("k", "other").s("v", &format!("{:?}", op)).done(),
        }
    }

    fn rvalue(&self, body_def: DefId, body: &mir::Body<'tcx>, rv: &mir::Rvalue<'tcx>) -> String {
        let op = |o: &mir::Operand<'tcx>| self.operand(body_def, body, o);
        match rv {
            mir::Rvalue::Use(o, _) => Obj::new().s("k", "use").raw("a", op(o)).done(),
            mir::Rvalue::Repeat(o, _) => Obj::new().s("k", "repeat").raw("a", op(o)).done(),
            mir::Rvalue::Ref(_, bk, p) => Obj::new()
                .s("k", "ref")
                .b("mut", matches!(bk, mir::BorrowKind::Mut { .. }))
                .raw("p", self.place(body, *p))
                .done(),
            mir::Rvalue::RawPtr(_, p) => Obj::new().s("k", "rawptr").raw("p", self.place(body, *p)).done(),
            mir::Rvalue::ThreadLocalRef(_) => Obj::new().s("k", "tls").done(),
            mir::Rvalue::Cast(ck, o, t) => Obj::new()
                .s("k", "cast")
                .s("ck", &format!("{:?}", ck))
                .raw("a", op(o))
                .s("ty", &self.ty_s(*t))
                .done(),
            mir::Rvalue::BinaryOp(b, ab) => Obj::new()
                .s("k", "binop")
                .s("op", &format!("{:?}", b))
                .raw("a", op(&ab.0))
                .raw("b", op(&ab.1))
                .done(),
            mir::Rvalue::UnaryOp(u, o) => Obj::new()
                .s("k", "unop")
                .s("op", &format!("{:?}", u))
                .raw("a", op(o))
                .done(),
            mir::Rvalue::Discriminant(p) => {
                let pty = p.ty(&body.local_decls, self.tcx);
                Obj::new()
                    .s("k", "discr")
                    .raw("p", self.place(body, *p))
                    .s("ty", &self.ty_s(pty.ty))
                    .done()
            }
            mir::Rvalue::Aggregate(kind, fields) => {
                let mut o = Obj::new().s("k", "agg");
                match &**kind {
                    mir::AggregateKind::Array(_) => o = o.s("ak", "array"),
                    mir::AggregateKind::Tuple => o = o.s("ak", "tuple"),
                    mir::AggregateKind::Adt(did, vi, _args, _, _) => {
                        let adt = self.tcx.adt_def(*did);
                        let var = adt.variant(*vi);
                        let names: Vec<String> =
                            var.fields.iter().map(|f| esc(&f.name.to_string())).collect();
                        o = o
                            .s("ak", "adt")
                            .s("adt", &self.tcx.def_path_str(*did))
                            .s("variant", &var.name.to_string())
                            .raw("fnames", arr(names));
                    }
                    mir::AggregateKind::Closure(did, _) => {
                        o = o.s("ak", "closure").s("closure", &self.key(*did));
                    }
                    mir::AggregateKind::Coroutine(did, _) => {
                        o = o.s("ak", "coroutine").s("closure", &self.key(*did));
                    }
                    mir::AggregateKind::CoroutineClosure(did, _) => {
                        o = o.s("ak", "coroutine_closure").s("closure", &self.key(*did));
                    }
                    mir::AggregateKind::RawPtr(..) => o = o.s("ak", "rawptr"),
                }
                let fs: Vec<String> = fields.iter().map(|f| op(f)).collect();
                o.raw("fields", arr(fs)).done()
            }
            mir::Rvalue::CopyForDeref(p) => Obj::new().s("k", "use").raw("a", Obj::new().s("k", "copy").raw("p", self.place(body, *p)).done()).done(),
            other => Obj::new().s("k", "other").s("v", &format!("{:?}", other)).done(),
        }
    }

    fn span_obj(&self, o: Obj, sp: Span) -> Obj {
        let (f, lo, _hi) = self.loc(sp);
        let mut o = o.s("file", &f).n("line", lo as i128);
        if sp.from_expansion() {
            let m: Vec<String> = self.macros(sp).iter().map(|s| esc(s)).collect();
            o = o.b("exp", true).raw("macros", arr(m));
        }
        o
    }

    fn body(&self, ldid: LocalDefId) -> String {
        let tcx = self.tcx;
        let did = ldid.to_def_id();
        let body: &mir::Body<'tcx> = tcx.optimized_mir(did);
        let (file, lo, hi) = self.loc(body.span);
        let (locals, blocks) = self.mir_parts(did, body);
        let mut proms = vec![];
        for pb in tcx.promoted_mir(did).iter() {
            let (pl, pbk) = self.mir_parts(did, pb);
            proms.push(Obj::new().raw("locals", arr(pl)).raw("blocks", arr(pbk)).done());
        }
        self.body_tail(did, body, file, lo, hi, locals, blocks, proms)
    }

    fn mir_parts(&self, did: DefId, body: &mir::Body<'tcx>) -> (Vec<String>, Vec<String>) {
        let tcx = self.tcx;

        // local names
        let mut names: HashMap<usize, String> = HashMap::new();
        for vdi in &body.var_debug_info {
            if let mir::VarDebugInfoContents::Place(p) = vdi.value {
                if p.projection.is_empty() {
                    names.entry(p.local.as_usize()).or_insert(vdi.name.to_string());
                }
            }
        }
        let mut locals = vec![];
        for (l, d) in body.local_decls.iter_enumerated() {
            let mut o = Obj::new().s("ty", &self.ty_s(d.ty));
            if let Some(n) = names.get(&l.as_usize()) {
                o = o.s("name", n);
            }
            locals.push(o.done());
        }

        let mut blocks = vec![];
        for (_bb, data) in body.basic_blocks.iter_enumerated() {
            let mut stmts = vec![];
            for st in &data.statements {
                match &st.kind {
                    mir::StatementKind::Assign(b) => {
                        let (p, rv) = &**b;
                        let o = Obj::new()
                            .s("k", "assign")
                            .raw("p", self.place(body, *p))
                            .raw("rv", self.rvalue(did, body, rv));
                        stmts.push(self.span_obj(o, st.source_info.span).done());
                    }
                    mir::StatementKind::SetDiscriminant { place, variant_index } => {
                        let o = Obj::new()
                            .s("k", "setdiscr")
                            .raw("p", self.place(body, **place))
                            .n("variant", variant_index.as_usize() as i128);
                        stmts.push(self.span_obj(o, st.source_info.span).done());
                    }
                    _ => {}
                }
            }
            let term = data.terminator();
            let sp = term.source_info.span;
            let t = match &term.kind {
                mir::TerminatorKind::Goto { target } => {
                    Obj::new().s("k", "goto").n("target", target.as_usize() as i128)
                }
                mir::TerminatorKind::SwitchInt { discr, targets } => {
                    let mut tv = vec![];
                    // find discriminant source in this block
                    let mut enum_adt: Option<ty::AdtDef<'tcx>> = None;
                    let mut discr_place: Option<String> = None;
                    if let Some(dp) = discr.place() {
                        for st in data.statements.iter().rev() {
                            if let mir::StatementKind::Assign(b) = &st.kind {
                                if b.0 == dp {
                                    if let mir::Rvalue::Discriminant(src) = &b.1 {
                                        let pty = src.ty(&body.local_decls, tcx);
                                        if let ty::Adt(adt, _) = pty.ty.kind() {
                                            enum_adt = Some(*adt);
                                            discr_place = Some(self.place(body, *src));
                                        }
                                    }
                                    break;
                                }
                            }
                        }
                    }
                    for (v, bb) in targets.iter() {
                        let mut o = Obj::new().s("v", &format!("{}", v)).n("bb", bb.as_usize() as i128);
                        if let Some(adt) = enum_adt {
                            for (vi, d) in adt.discriminants(tcx) {
                                if d.val == v {
                                    o = o.s("variant", &adt.variant(vi).name.to_string());
                                }
                            }
                        }
                        tv.push(o.done());
                    }
                    let mut o = Obj::new()
                        .s("k", "switch")
                        .raw("discr", self.operand(did, body, discr))
                        .s("dty", &self.ty_s(discr.ty(&body.local_decls, tcx)))
                        .raw("targets", arr(tv))
                        .n("otherwise", targets.otherwise().as_usize() as i128);
                    if let Some(adt) = enum_adt {
                        let vn: Vec<String> = adt
                            .variants()
                            .iter()
                            .map(|v| esc(&v.name.to_string()))
                            .collect();
                        o = o
                            .s("enum", &tcx.def_path_str(adt.did()))
                            .raw("variants", arr(vn))
                            .raw("dplace", discr_place.unwrap());
                    }
                    o
                }
                mir::TerminatorKind::Return => Obj::new().s("k", "return"),
                mir::TerminatorKind::Unreachable => Obj::new().s("k", "unreachable"),
                mir::TerminatorKind::UnwindResume => Obj::new().s("k", "resume"),
                mir::TerminatorKind::UnwindTerminate(_) => Obj::new().s("k", "terminate"),
                mir::TerminatorKind::Drop { place, target, unwind, .. } => {
                    let pty = place.ty(&body.local_decls, tcx);
                    let mut o = Obj::new()
                        .s("k", "drop")
                        .raw("p", self.place(body, *place))
                        .s("ty", &self.ty_s(pty.ty))
                        .n("target", target.as_usize() as i128);
                    if let mir::UnwindAction::Cleanup(bb) = unwind {
                        o = o.n("unwind", bb.as_usize() as i128);
                    }
                    o
                }
                mir::TerminatorKind::Call { func, args, destination, target, unwind, .. } => {
                    let mut o = Obj::new().s("k", "call");
                    match func {
                        mir::Operand::Constant(c) => match c.const_.ty().kind() {
                            ty::FnDef(fd, fargs) => {
                                o = o.raw("callee", self.callee_obj(did, *fd, fargs).done());
                            }
                            _ => {
                                o = o.raw("callee_op", self.operand(did, body, func));
                            }
                        },
                        _ => {
                            o = o.raw("callee_op", self.operand(did, body, func));
                        }
                    }
                    let av: Vec<String> =
                        args.iter().map(|a| self.operand(did, body, &a.node)).collect();
                    o = o
                        .raw("args", arr(av))
                        .raw("dest", self.place(body, *destination))
                        .s("dest_ty", &self.ty_s(destination.ty(&body.local_decls, tcx).ty));
                    if let Some(t) = target {
                        o = o.n("target", t.as_usize() as i128);
                    }
                    if let mir::UnwindAction::Cleanup(bb) = unwind {
                        o = o.n("unwind", bb.as_usize() as i128);
                    }
                    o
                }
                mir::TerminatorKind::Assert { cond, expected, msg, target, unwind } => {
                    let (kind, ops): (String, Vec<String>) = match &**msg {
                        mir::AssertKind::BoundsCheck { len, index } => (
                            "BoundsCheck".into(),
                            vec![self.operand(did, body, len), self.operand(did, body, index)],
                        ),
                        mir::AssertKind::Overflow(b, l, r) => (
                            format!("Overflow({:?})", b),
                            vec![self.operand(did, body, l), self.operand(did, body, r)],
                        ),
                        mir::AssertKind::OverflowNeg(a) => {
                            ("OverflowNeg".into(), vec![self.operand(did, body, a)])
                        }
                        mir::AssertKind::DivisionByZero(a) => {
                            ("DivisionByZero".into(), vec![self.operand(did, body, a)])
                        }
                        mir::AssertKind::RemainderByZero(a) => {
                            ("RemainderByZero".into(), vec![self.operand(did, body, a)])
                        }
                        mir::AssertKind::MisalignedPointerDereference { .. } => {
                            ("MisalignedPointerDereference".into(), vec![])
                        }
                        mir::AssertKind::NullPointerDereference => {
                            ("NullPointerDereference".into(), vec![])
                        }
                        other => (format!("{:?}", other).split('(').next().unwrap_or("Other").to_string(), vec![]),
                    };
                    let synthetic = kind == "MisalignedPointerDereference"
                        || kind == "NullPointerDereference"
                        || kind.starts_with("InvalidEnumConstruction");
                    let mut o = Obj::new()
                        .s("k", "assert")
                        .s("akind", &kind)
                        .b("synthetic", synthetic)
                        .raw("cond", self.operand(did, body, cond))
                        .b("expected", *expected)
                        .raw("ops", arr(ops))
                        .n("target", target.as_usize() as i128);
                    if let mir::UnwindAction::Cleanup(bb) = unwind {
                        o = o.n("unwind", bb.as_usize() as i128);
                    }
                    o
                }
                other => Obj::new().s("k", "other").s("v", &format!("{:?}", other)),
            };
            let t = self.span_obj(t, sp).done();
            blocks.push(
                Obj::new()
                    .b("cleanup", data.is_cleanup)
                    .raw("stmts", arr(stmts))
                    .raw("term", t)
                    .done(),
            );
        }

        (locals, blocks)
    }

    #[allow(clippy::too_many_arguments)]
    fn body_tail(
        &self,
        did: DefId,
        body: &mir::Body<'tcx>,
        file: String,
        lo: usize,
        hi: usize,
        locals: Vec<String>,
        blocks: Vec<String>,
        proms: Vec<String>,
    ) -> String {
        let tcx = self.tcx;
        let kind = tcx.def_kind(did);
        let mut o = Obj::new()
            .s("key", &self.key(did))
            .s("path", &tcx.def_path_str(did))
            .s("kind", &format!("{:?}", kind))
            .s("file", &file)
            .n("line", lo as i128)
            .n("line_hi", hi as i128)
            .n("argc", body.arg_count as i128);
        if matches!(kind, DefKind::Fn | DefKind::AssocFn) {
            o = o
                .s("vis", &format!("{:?}", tcx.visibility(did)))
                .b("pub", tcx.visibility(did).is_public())
                .s("sig", &format!("{}", tcx.fn_sig(did).instantiate_identity().skip_norm_wip()));
            if let Some(imp) = tcx.impl_of_assoc(did) {
                o = o.s("impl_self", &format!("{}", tcx.type_of(imp).instantiate_identity().skip_norm_wip()));
                if let Some(tr) = tcx.impl_opt_trait_ref(imp) {
                    o = o.s("impl_trait", &format!("{}", tr.instantiate_identity().skip_norm_wip().print_only_trait_path()));
                }
            }
            if let Some(tr) = tcx.trait_of_assoc(did) {
                o = o.s("in_trait", &tcx.def_path_str(tr));
            }
        }
        if matches!(kind, DefKind::Closure) {
            let parent = tcx.parent(did);
            o = o.s("parent", &self.key(parent));
        }
        {
            // generic parameter names in substitution order (parents first)
            let mut names: Vec<String> = vec![];
            let mut stack = vec![];
            let mut g = tcx.generics_of(did);
            loop {
                stack.push(g);
                match g.parent {
                    Some(p) => g = tcx.generics_of(p),
                    None => break,
                }
            }
            for g in stack.iter().rev() {
                for p in &g.own_params {
                    names.push(esc(&p.name.to_string()));
                }
            }
            o = o.raw("generics", arr(names));
        }
        o = o.s("ret_ty", &self.ty_s(body.local_decls[mir::RETURN_PLACE].ty));
        o.raw("locals", arr(locals)).raw("blocks", arr(blocks)).raw("promoted", arr(proms)).done()
    }

    fn items(&self) -> String {
        let tcx = self.tcx;
        let mut adts = vec![];
        let mut impls = vec![];
        let mut traits = vec![];
        for ldid in tcx.hir_crate_items(()).definitions() {
            let did = ldid.to_def_id();
            match tcx.def_kind(did) {
                DefKind::Struct | DefKind::Enum => {
                    let adt = tcx.adt_def(did);
                    let mut vars = vec![];
                    for v in adt.variants().iter() {
                        let mut fs = vec![];
                        for f in v.fields.iter() {
                            let fty = tcx.type_of(f.did).instantiate_identity().skip_norm_wip();
                            fs.push(
                                Obj::new()
                                    .s("name", &f.name.to_string())
                                    .s("ty", &format!("{}", fty))
                                    .s("vis", &format!("{:?}", f.vis))
                                    .b("pub", f.vis.is_public())
                                    .done(),
                            );
                        }
                        vars.push(
                            Obj::new().s("name", &v.name.to_string()).raw("fields", arr(fs)).done(),
                        );
                    }
                    let (file, lo, _) = self.loc(tcx.def_span(did));
                    adts.push(
                        Obj::new()
                            .s("path", &tcx.def_path_str(did))
                            .b("is_enum", adt.is_enum())
                            .s("vis", &format!("{:?}", tcx.visibility(did)))
                            .b("pub", tcx.visibility(did).is_public())
                            .s("file", &file)
                            .n("line", lo as i128)
                            .raw("variants", arr(vars))
                            .done(),
                    );
                }
                DefKind::Impl { of_trait } => {
                    let st = tcx.type_of(did).instantiate_identity().skip_norm_wip();
                    let mut o = Obj::new().s("self_ty", &format!("{}", st));
                    if of_trait {
                        if let Some(tr) = tcx.impl_opt_trait_ref(did) {
                            let tr = tr.instantiate_identity().skip_norm_wip();
                            o = o
                                .s("trait", &tcx.def_path_str(tr.def_id))
                                .s("trait_full", &format!("{}", tr.print_only_trait_path()));
                        }
                    }
                    let mut ms = vec![];
                    for it in tcx.associated_items(did).in_definition_order() {
                        ms.push(esc(&it.name().to_string()));
                    }
                    let (file, lo, _) = self.loc(tcx.def_span(did));
                    impls.push(o.raw("items", arr(ms)).s("file", &file).n("line", lo as i128).done());
                }
                DefKind::Trait => {
                    let mut ms = vec![];
                    for it in tcx.associated_items(did).in_definition_order() {
                        let mut o = Obj::new().s("name", &it.name().to_string());
                        if matches!(it.kind, ty::AssocKind::Fn { .. }) {
                            o = o.s(
                                "sig",
                                &format!("{}", tcx.fn_sig(it.def_id).instantiate_identity().skip_norm_wip()),
                            );
                            o = o.b("has_default", it.defaultness(tcx).has_value());
                        }
                        ms.push(o.done());
                    }
                    // supertraits / bounds as predicates text
                    let preds = tcx.predicates_of(did);
                    let mut ps = vec![];
                    for (p, _) in preds.predicates {
                        ps.push(esc(&format!("{}", p)));
                    }
                    let preds2 = tcx.explicit_super_predicates_of(did);
                    for (p, _) in preds2.iter_identity_copied().map(|x| x.skip_norm_wip()) {
                        ps.push(esc(&format!("{}", p)));
                    }
                    // associated type bounds
                    let mut abounds = vec![];
                    for it in tcx.associated_items(did).in_definition_order() {
                        if matches!(it.kind, ty::AssocKind::Type { .. }) {
                            let mut bs = vec![];
                            for (c, _) in tcx.explicit_item_bounds(it.def_id).iter_identity_copied().map(|x| x.skip_norm_wip()) {
                                bs.push(esc(&format!("{}", c)));
                            }
                            abounds.push(
                                Obj::new().s("name", &it.name().to_string()).raw("bounds", arr(bs)).done(),
                            );
                        }
                    }
                    traits.push(
                        Obj::new()
                            .s("path", &tcx.def_path_str(did))
                            .b("pub", tcx.visibility(did).is_public())
                            .raw("items", arr(ms))
                            .raw("preds", arr(ps))
                            .raw("assoc_bounds", arr(abounds))
                            .done(),
                    );
                }
                _ => {}
            }
        }
        Obj::new()
            .raw("adts", arr(adts))
            .raw("impls", arr(impls))
            .raw("traits", arr(traits))
            .done()
    }
}

struct Cb {
    out: String,
    krate: String,
}

impl rustc_driver::Callbacks for Cb {
    fn after_analysis<'tcx>(&mut self, _c: &Compiler, tcx: TyCtxt<'tcx>) -> Compilation {
        let name = tcx.crate_name(rustc_hir::def_id::LOCAL_CRATE).to_string();
        if name != self.krate {
            return Compilation::Continue;
        }
        // stable unique keys
        let mut keys: HashMap<DefId, String> = HashMap::new();
        let mut seen: HashMap<String, usize> = HashMap::new();
        let mut body_ids: Vec<LocalDefId> = vec![];
        for ldid in tcx.mir_keys(()) {
            let did = ldid.to_def_id();
            let kind = tcx.def_kind(did);
            if !matches!(kind, DefKind::Fn | DefKind::AssocFn | DefKind::Closure) {
                continue;
            }
            body_ids.push(*ldid);
        }
        body_ids.sort_by_key(|d| {
            let sp = tcx.def_span(d.to_def_id());
            (tcx.def_path_str(d.to_def_id()), sp.lo().0)
        });
        for ldid in &body_ids {
            let did = ldid.to_def_id();
            let p = tcx.def_path_str(did);
            let n = seen.entry(p.clone()).or_insert(0);
            let k = if *n == 0 { p.clone() } else { format!("{}#{}", p, n) };
            *n += 1;
            keys.insert(did, k);
        }
        let cx = Cx { tcx, keys };
        let mut bodies = vec![];
        for ldid in &body_ids {
            bodies.push(cx.body(*ldid));
        }
        let doc = Obj::new()
            .s("crate", &name)
            .s("rustc", &format!("{}", rustc_interface::util::rustc_version_str().unwrap_or("?")))
            .raw("items", cx.items())
            .raw("bodies", arr(bodies))
            .done();
        std::fs::write(&self.out, doc).expect("rlfacts: cannot write facts");
        Compilation::Continue
    }
}

fn main() {
    let mut args: Vec<String> = std::env::args().collect();
    // wrapper protocol: argv[1] is the real rustc
    if args.len() > 1 && (args[1].ends_with("rustc") || args[1].contains("/rustc")) {
        args.remove(1);
    }
    let out = std::env::var("RLFACTS_OUT").unwrap_or_else(|_| "/dev/null".to_string());
    let krate = std::env::var("RLFACTS_CRATE").unwrap_or_else(|_| "raft_log".to_string());
    let mut cb = Cb { out, krate };
    rustc_driver::run_compiler(&args, &mut cb);
}
