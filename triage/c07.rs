use std::io;
use std::sync::Arc;
use std::sync::mpsc::{sync_channel, SyncSender};
use raft_log::api::raft_log_writer::RaftLogWriter;
use raft_log::{Config, RaftLog, Types};
#[derive(Debug, Clone, PartialEq, Eq, Default)]
struct TT;
impl Types for TT {
    type LogId = (u64, u64); type LogPayload = String; type Vote = (u64, u64); type UserData = String;
    type Callback = SyncSender<io::Result<()>>;
    fn log_index(l: &Self::LogId) -> u64 { l.1 }
    fn payload_size(p: &Self::LogPayload) -> u64 { p.len() as u64 }
}
fn flush(rl: &mut RaftLog<TT>) -> io::Result<()> { let (tx, rx) = sync_channel(1); rl.flush(Some(tx))?; rx.recv().unwrap() }
fn s(x: &str) -> String { x.to_string() }
#[test] fn c07_lower_term_reappend_evicted_from_open_chunk() {
    let d = tempfile::tempdir().unwrap();
    let cfg = Arc::new(Config { dir: d.path().to_str().unwrap().to_string(), chunk_max_records: Some(5), log_cache_max_items: Some(1), ..Default::default() });
    let mut rl = RaftLog::<TT>::open(cfg).unwrap();
    rl.append([((1,0),s("a")),((1,1),s("b")),((3,2),s("c")),((3,3),s("d"))]).unwrap();
    flush(&mut rl).unwrap(); rl.wait_worker_idle();
    eprintln!("C07 last_evictable={:?}", rl.stat().payload_cache_last_evictable);
    rl.truncate(2).unwrap();
    rl.append([((2,2),s("C")),((2,3),s("D"))]).unwrap();
    let got: Vec<_> = rl.read(0, 10).map(|r| r.map_err(|e| e.to_string())).collect();
    eprintln!("C07 read(0,10)={:?}", got);
}
