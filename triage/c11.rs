// D11 (C11): the segment returned by the write that fills a chunk is the NEW chunk's head State record, not the record written.
use std::io;
use std::sync::Arc;
use std::sync::mpsc::{sync_channel, SyncSender};
use raft_log::api::raft_log_writer::RaftLogWriter;
use raft_log::{Config, RaftLog, Types, DumpApi};
#[derive(Debug, Clone, PartialEq, Eq, Default)]
struct TT;
impl Types for TT {
    type LogId = (u64, u64); type LogPayload = String; type Vote = (u64, u64); type UserData = String;
    type Callback = SyncSender<io::Result<()>>;
    fn log_index(l: &Self::LogId) -> u64 { l.1 }
    fn payload_size(p: &Self::LogPayload) -> u64 { p.len() as u64 }
}
#[test] fn c11_segment_of_chunk_filling_write() {
    let d = tempfile::tempdir().unwrap();
    let cfg = Config { dir: d.path().to_str().unwrap().to_string(), chunk_max_records: Some(3), ..Default::default() };
    let mut rl = RaftLog::<TT>::open(Arc::new(cfg)).unwrap();
    let mut segs = vec![];
    for i in 0..4u64 { segs.push(rl.append([((1, i), format!("payload-{i}"))]).unwrap()); }
    let (tx, rx) = sync_channel(1); rl.flush(Some(tx)).unwrap(); rx.recv().unwrap().unwrap();
    println!("C11 returned segments: {:?}", segs);
    println!("C11 dump:\n{}", rl.dump().write_to_string().unwrap());
}
