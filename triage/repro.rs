use std::io;
use std::sync::Arc;
use std::sync::mpsc::{sync_channel, SyncSender};
use raft_log::api::raft_log_writer::RaftLogWriter;
use raft_log::{Config, RaftLog, Types};

#[derive(Debug, Clone, PartialEq, Eq, Default)]
struct TT;
impl Types for TT {
    type LogId = (u64, u64);
    type LogPayload = String;
    type Vote = (u64, u64);
    type UserData = String;
    type Callback = SyncSender<io::Result<()>>;
    fn log_index(l: &Self::LogId) -> u64 { l.1 }
    fn payload_size(p: &Self::LogPayload) -> u64 { p.len() as u64 }
}
fn flush(rl: &mut RaftLog<TT>) { let (tx, rx) = sync_channel(1); rl.flush(Some(tx)).unwrap(); rx.recv().unwrap().unwrap(); }
fn cfg(d: &tempfile::TempDir) -> Config { Config { dir: d.path().to_str().unwrap().to_string(), chunk_max_records: Some(5), ..Default::default() } }
fn s(x: &str) -> String { x.to_string() }

#[test] fn c16_truncate0_after_purge() {
    let d = tempfile::tempdir().unwrap(); let mut rl = RaftLog::<TT>::open(Arc::new(cfg(&d))).unwrap();
    rl.append([((1,0),s("a")),((1,1),s("b")),((1,2),s("c"))]).unwrap(); rl.purge((1,1)).unwrap();
    let r = std::panic::catch_unwind(std::panic::AssertUnwindSafe(|| rl.truncate(0).is_err()));
    println!("C16 truncate(0) after purge: {:?}", r.as_ref().map_err(|_| "PANIC"));
}
#[test] fn c16_read_from_gt_to() {
    let d = tempfile::tempdir().unwrap(); let mut rl = RaftLog::<TT>::open(Arc::new(cfg(&d))).unwrap();
    rl.append([((1,0),s("a"))]).unwrap();
    let r = std::panic::catch_unwind(std::panic::AssertUnwindSafe(|| rl.read(5,3).count()));
    println!("C16 read(5,3): {:?}", r.as_ref().map_err(|_| "PANIC"));
}
#[test] fn c16_index_max() {
    let d = tempfile::tempdir().unwrap(); let mut rl = RaftLog::<TT>::open(Arc::new(cfg(&d))).unwrap();
    rl.append([((1,u64::MAX),s("a"))]).unwrap();
    let r = std::panic::catch_unwind(std::panic::AssertUnwindSafe(|| rl.append([((2,0),s("b"))]).is_err()));
    println!("C16 append after index MAX: {:?}", r.as_ref().map_err(|_| "PANIC"));
}
#[test] fn c06_rejected_vote_then_reopen() {
    let d = tempfile::tempdir().unwrap();
    { let mut rl = RaftLog::<TT>::open(Arc::new(cfg(&d))).unwrap();
      rl.save_vote((5,1)).unwrap(); assert!(rl.save_vote((3,1)).is_err()); flush(&mut rl); }
    std::thread::sleep(std::time::Duration::from_millis(100));
    let r = RaftLog::<TT>::open(Arc::new(cfg(&d)));
    println!("C06 reopen after rejected vote: {:?}", r.as_ref().map(|_| "ok").map_err(|e| e.to_string()));
}
#[test] fn c06_c15_rejected_append_overwrites() {
    let d = tempfile::tempdir().unwrap(); let mut rl = RaftLog::<TT>::open(Arc::new(cfg(&d))).unwrap();
    rl.append([((1,0),s("aa")),((1,1),s("bb"))]).unwrap();
    let before = rl.stat();
    let e = rl.append([((1,1),s("XXXXXXXX"))]).is_err();
    let e2 = rl.append([((0,0),s("YYYY"))]).is_err();
    let after = rl.stat();
    println!("C06/C15 rejected={} {}: size {}->{} items {}->{} read={:?}", e, e2, before.payload_cache_size, after.payload_cache_size,
      before.payload_cache_item_count, after.payload_cache_item_count, rl.read(0,5).collect::<Vec<_>>());
}
#[test] fn c05_empty_chunk_file() {
    let d = tempfile::tempdir().unwrap();
    std::fs::write(format!("{}/r-00_000_000_000_000_000_000.wal", d.path().to_str().unwrap()), b"").unwrap();
    let c = Arc::new(cfg(&d));
    let r = std::panic::catch_unwind(move || RaftLog::<TT>::open(c).map(|_| ()).map_err(|e| e.to_string()));
    println!("C05 open with empty chunk file: {:?}", r.as_ref().map_err(|_| "PANIC"));
}
#[test] fn c09_middle_chunk_truncated_on_refused_open() {
    let d = tempfile::tempdir().unwrap();
    { let mut rl = RaftLog::<TT>::open(Arc::new(cfg(&d))).unwrap();
      for i in 0..12 { rl.append([((1,i),s("payload"))]).unwrap(); } flush(&mut rl); }
    std::thread::sleep(std::time::Duration::from_millis(100));
    let mut names: Vec<_> = std::fs::read_dir(d.path()).unwrap().map(|e| e.unwrap().file_name().into_string().unwrap()).filter(|n| n.ends_with(".wal")).collect();
    names.sort();
    let first = format!("{}/{}", d.path().to_str().unwrap(), names[0]);
    let len0 = std::fs::metadata(&first).unwrap().len();
    // cut 3 bytes off the FIRST (non-newest) chunk
    let f = std::fs::OpenOptions::new().write(true).open(&first).unwrap(); f.set_len(len0 - 3).unwrap(); drop(f);
    let r = RaftLog::<TT>::open(Arc::new(cfg(&d)));
    let len1 = std::fs::metadata(&first).unwrap().len();
    println!("C09 chunks={:?} refused={} first chunk len before open {} after {}", names, r.is_err(), len0 - 3, len1);
}
