#define _GNU_SOURCE
#include <errno.h>
#include <stdio.h>
#include <unistd.h>
#include <stdlib.h>
int fdatasync(int fd) {
    const char *flag = getenv("FAIL_SYNC_FLAG");
    char path[64], tgt[256]; snprintf(path, sizeof path, "/proc/self/fd/%d", fd);
    ssize_t n = readlink(path, tgt, sizeof tgt - 1); if (n < 0) n = 0; tgt[n] = 0;
    const char *base = tgt; for (const char *p = tgt; *p; p++) if (*p == '/') base = p + 1;
    if (flag && access(flag, F_OK) == 0) { fprintf(stderr, "SHIM fdatasync(%s) -> EIO\n", base); errno = EIO; return -1; }
    fprintf(stderr, "SHIM fdatasync(%s) -> ok\n", base);
    return fsync(fd);
}
