use std::io;
use std::sync::Arc;
use std::sync::mpsc::{sync_channel, SyncSender};
use raft_log::api::raft_log_writer::RaftLogWriter;
use raft_log::{Config, RaftLog, Types};
#[derive(Debug, Clone, PartialEq, Eq, Default)]
struct TT;
impl Types for TT {
    type LogId = (u64, u64); type LogPayload = String; type Vote = (u64, u64); type UserData = String;
    type Callback = SyncSender<io::Result<()>>;
    fn log_index(l: &Self::LogId) -> u64 { l.1 }
    fn payload_size(p: &Self::LogPayload) -> u64 { p.len() as u64 }
}
fn flush(rl: &mut RaftLog<TT>) -> io::Result<()> { let (tx, rx) = sync_channel(1); rl.flush(Some(tx)).unwrap(); rx.recv().unwrap() }
fn cfg(d: &tempfile::TempDir) -> Config { Config { dir: d.path().to_str().unwrap().to_string(), chunk_max_records: Some(5), ..Default::default() } }
fn s(x: &str) -> String { x.to_string() }
fn fail(on: bool) { let f = std::env::var("FAIL_SYNC_FLAG").unwrap(); if on { std::fs::write(&f, b"").unwrap() } else { let _ = std::fs::remove_file(&f); } }
fn wals(d: &tempfile::TempDir) -> Vec<String> { let mut v: Vec<_> = std::fs::read_dir(d.path()).unwrap().map(|e| e.unwrap().file_name().into_string().unwrap()).filter(|n| n.ends_with(".wal")).collect(); v.sort(); v }

#[test] fn d1_later_ack_ok_after_lost_sync() {
    fail(false);
    let d = tempfile::tempdir().unwrap(); let mut rl = RaftLog::<TT>::open(Arc::new(cfg(&d))).unwrap();
    fail(true);
    eprintln!("-- append 4 (rotation sends old tail with sync=true)");
    rl.append((0..4).map(|i| ((1,i), s("x")))).unwrap(); rl.wait_worker_idle();
    rl.append([((1,4), s("y"))]).unwrap();
    eprintln!("-- flush #1 (sync of old file fails again)");
    let r1 = flush(&mut rl); rl.wait_worker_idle();
    fail(false);
    rl.append([((1,5), s("z"))]).unwrap();
    eprintln!("-- flush #2 (no faults)");
    let r2 = flush(&mut rl);
    eprintln!("D1 flush1={:?} flush2={:?}", r1.map_err(|e| e.to_string()), r2.map_err(|e| e.to_string()));
}
#[test] fn d2_unlink_after_failed_sync() {
    fail(false);
    let d = tempfile::tempdir().unwrap(); let mut rl = RaftLog::<TT>::open(Arc::new(cfg(&d))).unwrap();
    rl.append((0..9).map(|i| ((1,i), s("x")))).unwrap(); flush(&mut rl).unwrap(); rl.wait_worker_idle();
    eprintln!("D2 before purge: {:?}", wals(&d));
    rl.purge((1,3)).unwrap();
    fail(true);
    let r = flush(&mut rl); rl.wait_worker_idle();
    fail(false);
    eprintln!("D2 flush result={:?}; files after: {:?}", r.map_err(|e| e.to_string()), wals(&d));
}
