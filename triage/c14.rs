use std::io;
use std::sync::Arc;
use std::sync::mpsc::{sync_channel, SyncSender};
use raft_log::api::raft_log_writer::RaftLogWriter;
use raft_log::{Config, RaftLog, Types};
#[derive(Debug, Clone, PartialEq, Eq, Default)]
struct TT;
impl Types for TT {
    type LogId = (u64, u64); type LogPayload = String; type Vote = (u64, u64); type UserData = String;
    type Callback = SyncSender<io::Result<()>>;
    fn log_index(l: &Self::LogId) -> u64 { l.1 }
    fn payload_size(p: &Self::LogPayload) -> u64 { p.len() as u64 }
}
fn flush(rl: &mut RaftLog<TT>) -> io::Result<()> { let (tx, rx) = sync_channel(1); rl.flush(Some(tx))?; rx.recv().unwrap() }
fn s(x: &str) -> String { x.to_string() }
fn wals(d: &str) -> Vec<String> { let mut v: Vec<_> = std::fs::read_dir(d).unwrap().map(|e| e.unwrap().file_name().into_string().unwrap()).filter(|n| n.ends_with(".wal")).collect(); v.sort(); v }
#[test] fn c14_old_worker_unlinks_after_reopen() {
    let dir = "/tmp/c14_dir"; let _ = std::fs::remove_dir_all(dir); std::fs::create_dir_all(dir).unwrap();
    let cfg = Arc::new(Config { dir: dir.to_string(), chunk_max_records: Some(5), ..Default::default() });
    let mut rl = RaftLog::<TT>::open(cfg.clone()).unwrap();
    rl.append((0..9).map(|i| ((1,i), s("x")))).unwrap(); flush(&mut rl).unwrap(); rl.wait_worker_idle();
    rl.purge((1,3)).unwrap();
    flush(&mut rl).unwrap();          // acknowledged
    drop(rl);                          // dropped
    let mut rl2 = RaftLog::<TT>::open(cfg.clone()).unwrap();   // reopened at once
    eprintln!("C14 files seen right after reopen: {:?}", wals(dir));
    std::thread::sleep(std::time::Duration::from_millis(1500));
    eprintln!("C14 files 1.5s later (old worker ran): {:?}", wals(dir));
    rl2.append([((1,9), s("y"))]).unwrap();
    rl2.purge((1,4)).unwrap();
    let f1 = flush(&mut rl2);
    std::thread::sleep(std::time::Duration::from_millis(1500));
    rl2.append([((1,10), s("z"))]).unwrap();
    let f2 = flush(&mut rl2);
    eprintln!("C14 new instance flush1={:?} flush2={:?}", f1.map_err(|e| e.to_string()), f2.map_err(|e| e.to_string()));
}
