//! E3: compile-fail witnesses for the type-level remainder of C04, C07, C13 (thorough tier).
//! Every witness is a `compile_fail,E0xxx` doc-test paired with a compiling (`no_run`) twin that differs only by the
//! offending line, so a witness cannot pass because of an unrelated error.  Nothing here is executed.
//!
//! Shared prelude (hidden in each test): application types as an external user would write them.

/// C04 / R04.4 -- a flush callback can be invoked at most once: `Callback::send` consumes the callback.
///
/// ```compile_fail,E0382
/// use std::sync::mpsc::{sync_channel, SyncSender};
/// use raft_log::Callback;
/// let (tx, _rx) = sync_channel::<std::io::Result<()>>(2);
/// let cb: SyncSender<std::io::Result<()>> = tx;
/// Callback::send(cb, Ok(()));
/// Callback::send(cb, Ok(()));   // second invocation: use of moved value
/// ```
///
/// twin (compiles):
/// ```no_run
/// use std::sync::mpsc::{sync_channel, SyncSender};
/// use raft_log::Callback;
/// let (tx, _rx) = sync_channel::<std::io::Result<()>>(2);
/// let cb: SyncSender<std::io::Result<()>> = tx;
/// Callback::send(cb, Ok(()));
/// ```
pub struct W04CallbackOnce;

/// C13 / R13.4 -- a `RaftLog` cannot be built without going through `open` (which takes the lock): its fields are private.
///
/// ```compile_fail,E0451
/// # use std::io; use std::sync::Arc; use std::sync::mpsc::SyncSender;
/// # use raft_log::{RaftLog, Config, Types};
/// # #[derive(Debug, Clone, PartialEq, Eq, Default)] struct MyTypes;
/// # impl Types for MyTypes { type LogId = (u64, u64); type LogPayload = String; type Vote = (u64, u64); type UserData = String;
/// #   type Callback = SyncSender<io::Result<()>>;
/// #   fn log_index(l: &Self::LogId) -> u64 { l.1 } fn payload_size(p: &Self::LogPayload) -> u64 { p.len() as u64 } }
/// let config = Arc::new(Config::new("/nonexistent"));
/// let opened: RaftLog<MyTypes> = RaftLog::open(config.clone()).unwrap();
/// let forged = RaftLog::<MyTypes> { config, ..opened };   // private field
/// ```
///
/// twin (compiles):
/// ```no_run
/// # use std::io; use std::sync::Arc; use std::sync::mpsc::SyncSender;
/// # use raft_log::{RaftLog, Config, Types};
/// # #[derive(Debug, Clone, PartialEq, Eq, Default)] struct MyTypes;
/// # impl Types for MyTypes { type LogId = (u64, u64); type LogPayload = String; type Vote = (u64, u64); type UserData = String;
/// #   type Callback = SyncSender<io::Result<()>>;
/// #   fn log_index(l: &Self::LogId) -> u64 { l.1 } fn payload_size(p: &Self::LogPayload) -> u64 { p.len() as u64 } }
/// let config = Arc::new(Config::new("/nonexistent"));
/// let opened: RaftLog<MyTypes> = RaftLog::open(config.clone()).unwrap();
/// let _same = opened;
/// ```
pub struct W13NoForgedRaftLog;

/// C13 / R13.4 -- the lock type is not reachable from outside the crate.
///
/// ```compile_fail,E0603
/// use raft_log::file_lock::FileLock;   // module `file_lock` is private
/// ```
///
/// twin (compiles):
/// ```no_run
/// use raft_log::Config;
/// let _ = Config::new("/nonexistent");
/// ```
pub struct W13LockTypePrivate;

/// C13 / R13.4 -- a `Dump` cannot be built without `Dump::new` (which takes the lock).
///
/// ```compile_fail,E0451
/// # use std::io; use std::sync::Arc; use std::sync::mpsc::SyncSender;
/// # use raft_log::{Dump, Config, Types};
/// # #[derive(Debug, Clone, PartialEq, Eq, Default)] struct MyTypes;
/// # impl Types for MyTypes { type LogId = (u64, u64); type LogPayload = String; type Vote = (u64, u64); type UserData = String;
/// #   type Callback = SyncSender<io::Result<()>>;
/// #   fn log_index(l: &Self::LogId) -> u64 { l.1 } fn payload_size(p: &Self::LogPayload) -> u64 { p.len() as u64 } }
/// let config = Arc::new(Config::new("/nonexistent"));
/// let d: Dump<MyTypes> = Dump::new(config.clone()).unwrap();
/// let forged = Dump::<MyTypes> { config, ..d };   // private field
/// ```
///
/// twin (compiles):
/// ```no_run
/// # use std::io; use std::sync::Arc; use std::sync::mpsc::SyncSender;
/// # use raft_log::{Dump, Config, Types};
/// # #[derive(Debug, Clone, PartialEq, Eq, Default)] struct MyTypes;
/// # impl Types for MyTypes { type LogId = (u64, u64); type LogPayload = String; type Vote = (u64, u64); type UserData = String;
/// #   type Callback = SyncSender<io::Result<()>>;
/// #   fn log_index(l: &Self::LogId) -> u64 { l.1 } fn payload_size(p: &Self::LogPayload) -> u64 { p.len() as u64 } }
/// let config = Arc::new(Config::new("/nonexistent"));
/// let d: Dump<MyTypes> = Dump::new(config.clone()).unwrap();
/// let _same = d;
/// ```
pub struct W13NoForgedDump;

/// C07 / R07.7 -- readers share, writers exclude: no write while a read iterator is alive.
///
/// ```compile_fail,E0502
/// # use std::io; use std::sync::Arc; use std::sync::mpsc::SyncSender;
/// # use raft_log::{RaftLog, Config, Types}; use raft_log::api::raft_log_writer::RaftLogWriter;
/// # #[derive(Debug, Clone, PartialEq, Eq, Default)] struct MyTypes;
/// # impl Types for MyTypes { type LogId = (u64, u64); type LogPayload = String; type Vote = (u64, u64); type UserData = String;
/// #   type Callback = SyncSender<io::Result<()>>;
/// #   fn log_index(l: &Self::LogId) -> u64 { l.1 } fn payload_size(p: &Self::LogPayload) -> u64 { p.len() as u64 } }
/// let mut rl: RaftLog<MyTypes> = RaftLog::open(Arc::new(Config::new("/nonexistent"))).unwrap();
/// let it = rl.read(0, 10);
/// rl.append([((1, 0), "x".to_string())]).unwrap();   // mutable borrow while `it` is alive
/// let _n = it.count();
/// ```
///
/// twin (compiles):
/// ```no_run
/// # use std::io; use std::sync::Arc; use std::sync::mpsc::SyncSender;
/// # use raft_log::{RaftLog, Config, Types}; use raft_log::api::raft_log_writer::RaftLogWriter;
/// # #[derive(Debug, Clone, PartialEq, Eq, Default)] struct MyTypes;
/// # impl Types for MyTypes { type LogId = (u64, u64); type LogPayload = String; type Vote = (u64, u64); type UserData = String;
/// #   type Callback = SyncSender<io::Result<()>>;
/// #   fn log_index(l: &Self::LogId) -> u64 { l.1 } fn payload_size(p: &Self::LogPayload) -> u64 { p.len() as u64 } }
/// let mut rl: RaftLog<MyTypes> = RaftLog::open(Arc::new(Config::new("/nonexistent"))).unwrap();
/// let it = rl.read(0, 10);
/// let _n = it.count();
/// rl.append([((1, 0), "x".to_string())]).unwrap();
/// ```
pub struct W07NoWriteDuringRead;

/// C07 / R07.7 -- the store can be shared between reader threads (positive witness, compiles).
///
/// ```no_run
/// # use std::io; use std::sync::Arc; use std::sync::mpsc::SyncSender;
/// # use raft_log::{RaftLog, Types};
/// # #[derive(Debug, Clone, PartialEq, Eq, Default)] struct MyTypes;
/// # impl Types for MyTypes { type LogId = (u64, u64); type LogPayload = String; type Vote = (u64, u64); type UserData = String;
/// #   type Callback = SyncSender<io::Result<()>>;
/// #   fn log_index(l: &Self::LogId) -> u64 { l.1 } fn payload_size(p: &Self::LogPayload) -> u64 { p.len() as u64 } }
/// fn assert_send_sync<X: Send + Sync>() {}
/// assert_send_sync::<RaftLog<MyTypes>>();
/// ```
pub struct W07SendSync;
