#!/usr/bin/env python3
"""Regenerates /verif/MANIFEST.json from the table below (keeps it schema-valid)."""
import json, os
V = os.path.dirname(os.path.dirname(os.path.abspath(__file__)))
props = [json.loads(l) for l in open(os.path.join(V, "properties.jsonl"))]

CLAIMS = json.load(open(os.path.join(V, "tools", "claims.json")))

checks = []
na = []
for p in props:
    pid = p["id"]
    c = CLAIMS.get(pid)
    if not c or c.get("not_applicable"):
        na.append({"property_id": pid, "reason": (c or {}).get("not_applicable") or
                   "check not implemented yet (framework under construction; see DESIGN.md section 7)"})
        continue
    checks.append({
        "property_id": pid,
        "quick_cmd": "./check %s --tier quick" % pid,
        "thorough_cmd": "./check %s --tier thorough" % pid,
        "evidence_file": "/verif/evidence/%s.json" % pid,
        "replay_cmd_template": "cat {path}",
        "engine": "rlfacts+rlrules",
        "level_claimed": {"category": "other", "text": c["text"], "design_ref": c.get("design_ref", "DESIGN.md section 3, " + pid)},
        "level_note": c["note"],
        "technique": c["technique"],
    })
m = {
    "version": 1,
    "setup_cmd": "cd /verif/rlfacts && CARGO_NET_OFFLINE=true cargo +nightly build --release --offline && cd /verif && python3 rlrules/extract.py /repo",
    "hooks": {"guard": "raft_log_verif",
              "enable": "none: the checks are static (rustc MIR facts + rules) and execute nothing from /repo; no hook is compiled in",
              "baseline_off_cmd": "cd /repo && cargo test --workspace --no-fail-fast --offline",
              "source_commits": [], "add_only": True},
    "engines": [
        {"name": "rlfacts", "path": "/verif/rlfacts", "serves_properties": [c["property_id"] for c in checks],
         "kind_free_text": "rustc_private driver (nightly): projects items + MIR bodies with resolved callees of /repo's lib into a JSON fact file"},
        {"name": "rlrules", "path": "/verif/rlrules", "serves_properties": [c["property_id"] for c in checks],
         "kind_free_text": "Python rule engine: inlined entry graphs, provenance, variant-tag product graph, monitors; one module per property"},
        {"name": "selftest", "path": "/verif/rlrules/selftest.py", "serves_properties": [c["property_id"] for c in checks],
         "kind_free_text": "thorough tier: mutant / benign edits applied to scratch copies, rules must fire / stay silent"},
    ],
    "checks": checks,
    "not_applicable": na,
    "notes": "All claims are level 'other': named structural obligations decided on every path of the compiled program; see DESIGN.md.",
}
json.dump(m, open(os.path.join(V, "MANIFEST.json"), "w"), indent=1)
print("checks:", [c["property_id"] for c in checks], "n/a:", len(na))
