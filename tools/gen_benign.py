#!/usr/bin/env python3
"""Regenerates /verif/mutants/benign_refactors.json from /verif/benign/*.diff: behaviour-preserving refactorings written by independent
sub-agents; each is applied to a scratch copy and run against EVERY property's rules - none may report anything."""
import glob
import json
import os

V = os.path.dirname(os.path.dirname(os.path.abspath(__file__)))
ALL = ["C%02d" % i for i in range(1, 17)]
out = []
for p in sorted(glob.glob(os.path.join(V, "benign", "*.diff"))):
    name = os.path.basename(p)[:-5]
    md = p[:-5] + ".md"
    note = open(md).read().strip().replace("\n", " ")[:300] if os.path.exists(md) else ""
    out.append({"id": "refactor_" + name, "benign": True, "props": ALL, "patch": "benign/%s.diff" % name, "note": note})
json.dump(out, open(os.path.join(V, "mutants", "benign_refactors.json"), "w"), indent=1)
print(len(out), "benign refactorings,", len(out) * len(ALL), "runs")
