#!/bin/bash
# Documentation helper (NOT a registered check): runs /verif/triage/<name>.rs as an integration test of a
# scratch copy of /repo's working tree, to confirm a defect / a fix dynamically.  Usage: tools/run_triage.sh repro [filter]
set -e
D=$(mktemp -d)
trap "rm -rf $D" EXIT
cp -r /repo/src /repo/Cargo.toml /repo/Cargo.lock /repo/rust-toolchain $D/
mkdir $D/tests && cp /verif/triage/$1.rs $D/tests/$1.rs
cd $D && CARGO_TARGET_DIR=/verif/.cache/target-triage cargo test --offline --test $1 -- --test-threads 1 --nocapture $2 2>&1 | grep -vE "^\s*(Compiling|Finished|Running|warning|-->|\||=|[0-9]+ \|)" 
