#!/bin/bash
# tools/verify_seed.sh <seed-dir containing patch.diff + seed_demo.rs [+helpers]>  : confirms a seeded change
#  (1) existing suite passes with the patch  (2) demo fails with the patch  (3) demo passes without it.
# Works in a scratch git worktree of /repo HEAD under mktemp, removed afterwards.
set -u
S=$(readlink -f $1)
W=$(mktemp -d)/wt
git -C /repo worktree add --detach $W HEAD -q
export CARGO_TARGET_DIR=/verif/.cache/target-seedverify
cd $W
git apply $S/patch.diff || { echo "PATCH DOES NOT APPLY"; }
echo "== (1) existing suite WITH the change"
cargo test --offline --no-fail-fast 2>&1 | grep -E "^test result|FAILED|^error" | head -8
mkdir -p tests && cp $S/seed_demo.rs tests/seed_demo.rs
for f in $S/*.c $S/*.sh; do [ -f "$f" ] && cp $f $W/tests/; done 2>/dev/null
echo "== (2) demo WITH the change"
cargo test --offline --test seed_demo 2>&1 | grep -E "^test result|^test .*FAILED|panicked|^error" | head -8
git apply -R $S/patch.diff
echo "== (3) demo WITHOUT the change"
cargo test --offline --test seed_demo 2>&1 | grep -E "^test result|^test .*FAILED|panicked|^error" | head -8
cd /; git -C /repo worktree remove --force $W; rm -rf $(dirname $W)
