#!/usr/bin/env python3
"""Regenerates /verif/mutants/seeded.json from /verif/seeded/*/meta.json: every verified seeded change becomes a self-test entry
(applied as a patch to a scratch copy; expectation = a violation of one of the rules named in meta.caught_by for that property)."""
import glob
import json
import os
import re

V = os.path.dirname(os.path.dirname(os.path.abspath(__file__)))
out = []
for p in sorted(glob.glob(os.path.join(V, "seeded", "*", "meta.json"))):
    sid = os.path.basename(os.path.dirname(p))
    m = json.load(open(p))
    exp = {}
    for c in m.get("caught_by", []):
        mm = re.match(r"(C\d\d)\s+(.*)$", c)
        if not mm:
            continue
        prop, rest = mm.group(1), mm.group(2)
        rules = re.findall(r"R\d\d\.\d+|L\.[a-z-]+", rest.split("|")[0])
        if not rules:
            continue
        exp.setdefault(prop, set()).add(re.escape(rules[-1]))
    out.append({"id": "seed_" + sid, "props": sorted(exp), "expect": {k: "(" + "|".join(sorted(v)) + ")\\b" for k, v in exp.items()},
                "patch": "seeded/%s/patch.diff" % sid, "note": m.get("breaks", "")[:200]})
json.dump(out, open(os.path.join(V, "mutants", "seeded.json"), "w"), indent=1)
print(len(out), "seed entries,", sum(len(e["props"]) for e in out), "runs")
