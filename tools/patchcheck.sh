#!/bin/bash
# tools/patchcheck.sh <patch> <Cxx> : full output of one check on a scratch copy with the patch applied
P=$(readlink -f $1); D=$(mktemp -d); cp -r /repo/src /repo/Cargo.toml /repo/Cargo.lock $D/; (cd $D && git apply --include='src/*' --include=Cargo.toml $P) || { echo "patch does not apply"; rm -rf $D; exit 2; }
/verif/check $2 --repo $D --slot dbg --no-evidence; rm -rf $D
