#!/usr/bin/env python3
"""tools/mutcheck.py <mutant id> <Cxx> : full output of one check on a scratch copy with that self-test entry applied"""
import os, sys, shutil, subprocess
V = os.path.dirname(os.path.dirname(os.path.abspath(__file__)))
sys.path.insert(0, os.path.join(V, "rlrules"))
import selftest
m = [x for x in selftest.load() if x["id"] == sys.argv[1]][0]
d = selftest.scratch()
try:
    err = selftest.apply_patch(d, m["patch"]) if m.get("patch") else (selftest.apply_sed(d, m["sed"]) if m.get("sed") else selftest.apply_edits(d, m["edits"]))
    if err:
        print("ERR", err); sys.exit(2)
    subprocess.run([os.path.join(V, "check"), sys.argv[2], "--repo", d, "--slot", "dbg", "--no-evidence"])
finally:
    shutil.rmtree(d, ignore_errors=True)
