"""helper for interactive debugging: ctx_for_patch(path) -> (Ctx, scratch dir) on a scratch copy of /repo with the patch applied"""
import os, sys, shutil
VERIF = os.path.dirname(os.path.dirname(os.path.abspath(__file__)))
sys.path.insert(0, os.path.join(VERIF, "rlrules"))
import selftest, extract
from common import Ctx


def ctx_for_patch(patch, slot="dbg"):
    d = selftest.scratch()
    try:
        if patch:
            err = selftest.apply_patch(d, os.path.abspath(patch))
            if err:
                raise RuntimeError(err)
        fp, info = extract.get_facts(d, slot)
    finally:
        shutil.rmtree(d, ignore_errors=True)
    return Ctx(fp, info)
