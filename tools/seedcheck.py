#!/usr/bin/env python3
"""tools/seedcheck.py <patch.diff> [props...] : run the checks of all (or the given) properties on a scratch copy of /repo with the
patch applied (nothing is changed in /repo).  Prints the violation keys per property."""
import os, re, shutil, subprocess, sys
from concurrent.futures import ThreadPoolExecutor
VERIF = os.path.dirname(os.path.dirname(os.path.abspath(__file__)))
sys.path.insert(0, os.path.join(VERIF, "rlrules"))
import selftest, extract
patch = os.path.abspath(sys.argv[1])
props = sys.argv[2:] or ["C%02d" % i for i in range(1, 17)]
slot = "seedchk%d" % (os.getpid() % 4)
d = selftest.scratch()
try:
    err = selftest.apply_patch(d, patch)
    if err:
        print("ERR", err); sys.exit(2)
    try:
        extract.get_facts(d, slot)
    except Exception as e:
        print("does not compile:", str(e)[-1500:]); sys.exit(2)
    def one(p):
        r = subprocess.run([os.path.join(VERIF, "check"), p, "--repo", d, "--slot", slot, "--no-evidence"], stdout=subprocess.PIPE, stderr=subprocess.STDOUT, text=True)
        return p, r.returncode, re.findall(r"^   key: (.*)$", r.stdout, re.M), r.stdout
    with ThreadPoolExecutor(max_workers=8) as ex:
        for p, rc, keys, out in ex.map(one, props):
            print("%s rc=%d %s" % (p, rc, "; ".join(keys)[:600]))
            if rc not in (0, 1) or "Traceback" in out:
                print(out[-2500:])
finally:
    shutil.rmtree(d, ignore_errors=True)
