#!/bin/bash
# tools/check_seed.sh <patch.diff> [props...] : apply a seeded change to /repo, run the checks, undo it straight afterwards.
P=$(readlink -f $1); shift
PROPS=${@:-C03 C04 C06 C08 C09 C13 C15 C16}
git -C /repo apply $P || { echo "patch does not apply"; exit 2; }
for p in $PROPS; do /verif/check $p --no-evidence 2>&1 | grep -E "VIOLATION|KNOWN|key:|obligations" | grep -v "^     via" | cut -c1-220; done
git -C /repo checkout -- .
git -C /repo status --short
