"""C12 -- record codec round-trips and decoding is total.
R12.1 tag tables agree; R12.2 per-variant field sequences agree; R12.3 RaftLogState version + field order = declaration;
R12.4 byte accounting; R12.5 = R09.1/R09.2; R12.6 no panic-capable site in the decode cones."""
import re

from engine import (cmatch, cpath, expr_s, norm_learn, run_monitor, path_to, describe_path, strip_ids, OKV, ERRV, contains, finals)
from helpers import *
from engine import Unresolved
import c09
import c16

ENC = r"WALRecord<T> as codeq::Encode>::encode$"
DEC = r"WALRecord<T> as codeq::Decode>::decode$"
SENC = r"RaftLogState<T> as codeq::Encode>::encode$"
SDEC = r"RaftLogState<T> as codeq::Decode>::decode$"
SELF_SLOT = (0, 1, ("*",))
WIDTH = {"write_u8": 1, "write_i8": 1, "write_u16": 2, "write_i16": 2, "write_u32": 4, "write_i32": 4, "write_u64": 8, "write_i64": 8,
         "write_u128": 16}


def ty_of_codec_call(t):
    c = t["callee"]
    s = c.get("self_ty") or ""
    return re.sub(r"<T as api::types::Types>::", "T::", s)


def encode_tables(ctx, key):
    """per self-variant: (tag const, [(kind, what, type)...]) collected along each Ok path of the encoder"""
    g = ctx.graph(key)
    P = ctx.product(key)

    def step(ms, pi, qi, learn):
        tag, seq = ms
        n = P.gnode(pi)
        inst = g.inst(n)
        # `_0 = const k` inside a u32-returning helper (the tag function)
        for s in g.stmts(n):
            if s["k"] == "assign" and not s["p"]["proj"] and s["p"]["l"] == 0 and s["rv"]["k"] == "use" \
                    and s["rv"]["a"]["k"] == "const" and inst.body.get("ret_ty") == "u32" and "int" in s["rv"]["a"]:
                tag = int(s["rv"]["a"]["int"])
        t = g.term(n)
        if t["k"] == "call" and n not in g.callee_inst and not t.get("exp"):
            nm = cpath(t).split("::")[-1]
            a = [strip_ids(x) for x in event_args(g, n)]
            if nm in WIDTH:
                seq = seq + (("raw", nm, expr_s(a[1])[:40] if len(a) > 1 else ""),)
            elif nm == "encode" and cmatch(t, r"codeq::Encode::encode$|impl codeq::Encode for"):
                what = a[0]
                w = None
                if is_const(what):
                    w = "const:%s" % what[1]
                else:
                    def fpath(x):
                        fp = []
                        while isinstance(x, tuple) and x and x[0] == "field":
                            fp.append(x[2])
                            x = x[1]
                        return ".".join(reversed(fp))
                    w = fpath(what)
                    if not w and isinstance(what, tuple) and what and what[0] == "var":
                        # a binding shared by several arms (`Commit(id) | PurgeUpto(id) => id.encode(..)`): the same field in each of them
                        names = {fpath(strip_ids(x)) for x in value_sources(g, event_args(g, n)[0])}
                        if len(names) == 1:
                            w = names.pop()
                seq = seq + (("enc", w, ty_of_codec_call(t)),)
            elif nm == "write_checksum":
                seq = seq + (("crc", "", ""),)
        if len(seq) > 48:
            raise Unresolved("the encoder's event sequence does not end (fields written in a loop): the field table cannot be read off")
        return (tag, seq)
    seen = run_monitor(P, (None, ()), step, max_states=400000)
    out = {}
    for (pi, ms0, ms) in finals(P, seen, step):
        if P.gnode(pi) in g.exits and not exit_is_err(P, pi):
            v = P.tags(pi).get(SELF_SLOT)
            out.setdefault(v[0] if v else None, set()).add(ms)
    return g, P, out


def decode_tables(ctx, key):
    """per Ok path of the decoder: (tag value learned, sequence of decode events, aggregate built with field sources)"""
    g = ctx.graph(key)
    P = ctx.product(key)
    dec_nodes = {}

    def step(ms, pi, qi, learn):
        tag, ver, seq, built = ms
        n = P.gnode(pi)
        t = g.term(n)
        if t["k"] == "call" and n not in g.callee_inst and not t.get("exp"):
            nm = cpath(t).split("::")[-1]
            if nm.startswith("read_u") or nm.startswith("read_i"):
                seq = seq + (("raw", nm, n),)
            elif nm == "decode" and cmatch(t, r"codeq::Decode::decode$|impl codeq::Decode for"):
                seq = seq + (("dec", ty_of_codec_call(t), n),)
            elif nm == "verify_checksum":
                seq = seq + (("crc", "", n),)
        if len(seq) > 48:
            raise Unresolved("the decoder's event sequence does not end (fields read in a loop): the field table cannot be read off")
        for s in g.stmts(n):
            if s["k"] == "assign" and s["rv"]["k"] == "agg" and s["rv"].get("ak") == "adt" and \
                    re.search(r"wal_record::WALRecord$|raft_log_state::RaftLogState$", s["rv"]["adt"]):
                srcs = []
                for f in s["rv"]["fields"]:
                    e = g.prov_operand(g.inst(n), f)
                    cn = None

                    def find(x):
                        nonlocal cn
                        if isinstance(x, tuple) and x and x[0] == "call" and len(x) > 3 and re.search(r"Decode", x[1]) and cn is None:
                            cn = x[3]
                        if isinstance(x, tuple):
                            for y in x:
                                if isinstance(y, tuple):
                                    find(y)
                    find(e)
                    srcs.append(cn if cn is not None else ("agg" if (isinstance(e, tuple) and e and e[0] == "agg") else None))
                built = built + ((s["rv"]["adt"].split("::")[-1], s["rv"]["variant"], tuple(s["rv"]["fnames"]), tuple(srcs)),)
        for o, v in norm_learn(learn):
            if isinstance(o, tuple) and o and o[0] == "place":
                sw = g.term(o[2])
                if sw["k"] == "switch" and sw.get("dty") in ("u32", "u8", "u16", "u64") and "enum" not in sw:
                    pe = strip_ids(origin_place_expr(g, o))
                    src = expr_s(pe)
                    if "read_u32" in src or sw.get("dty") == "u32":
                        tag = v
                    else:
                        ver = v
            e = origin_stmt_expr(g, o)
            if e is not None and e[0] == "binop" and e[1] in ("Eq", "Ne"):
                a, b = strip_ids(e[2]), strip_ids(e[3])
                if is_const(b) and contains(a, lambda x: call_is(x, r"u8_impl::.*decode$|Decode::decode$")):
                    if (v == "true") == (e[1] == "Eq"):
                        ver = str(b[1])
        return (tag, ver, seq, built)
    seen = run_monitor(P, (None, None, (), ()), step)
    oks, errs_otherwise = [], []
    for (pi, ms0, ms) in finals(P, seen, step):
        if P.gnode(pi) in g.exits:
            if exit_is_err(P, pi):
                errs_otherwise.append(ms)
            else:
                oks.append(ms)
    return g, P, oks, errs_otherwise


def r12_10(ctx, rep):
    """R12.10: the codec is a function of its arguments: no thread-local / static / global cell is touched in the encode or decode cones."""
    rep.rule("R12.10", "WALRecord / RaftLogState encode and decode keep no state between calls: their cones contain no access to a thread-local, "
                       "a static cell or a lazily initialised global (a staging buffer that survives an error return makes the next record's "
                       "bytes depend on the previous call)")
    bad = []
    n_calls = 0
    for rx in (c09.ENCODE_KEY, c09.DECODE_KEY, r"RaftLogState<T> as codeq::Encode>::encode$", r"RaftLogState<T> as codeq::Decode>::decode$"):
        keys = [k for k in ctx.prog.bodies if re.search(rx, k)]
        for k in keys:
            g = ctx.graph(k)
            for n in g.nodes:
                t = g.term(n)
                if t["k"] != "call" or n in g.callee_inst:
                    continue
                n_calls += 1
                if cmatch(t, r"thread::local::LocalKey|thread::LocalKey|sync::(once_lock::)?OnceLock|cell::(once::)?OnceCell|sync::(lazy_lock::)?LazyLock|"
                             r"sync::atomic::Atomic\w*::|sync::(poison::)?(mutex::)?Mutex::<T>::lock$|sync::(poison::)?(rwlock::)?RwLock::<T>::(read|write)$"):
                    bad.append((short_key(k), cpath(t), g.where(n)))
    seen = set()
    for k, c, where in bad:
        key = "%s|shared-state:%s" % (k, c.split("::")[-1])
        if key in seen:
            continue
        seen.add(key)
        rep.violation("R12.10", key, c, "the codec touches state that outlives the call (%s): encoding/decoding is no longer a function of the "
                      "record and the bytes, so round trips depend on what happened before (e.g. an earlier call that returned an error)" % c,
                      where=where)
    if not bad:
        rep.ok("R12.10", "codec cones", "%d external call site(s), none touches thread-local / static / lock / atomic state" % n_calls)
    rep.floor("R12.10", "external call sites in the codec cones", n_calls, 10)


def r12_11(ctx, rep):
    """R12.11: records are encoded into memory.  The codec counts and checksums what it hands to its sink; `ChecksumWriter` digests a whole
    buffer before a `write` that may be partial, so over a sink that can write short (a file, a socket) the caller's `write_all` re-submits - and
    re-digests - the rest: the trailer no longer matches the bytes.  Every call of WALRecord::encode in the library passes a Vec<u8>."""
    rep.rule("R12.11", "WALRecord::encode is only ever instantiated with an in-memory sink (`&mut Vec<u8>` / `Vec<u8>`): the checksum and the byte "
                       "count are computed over what is handed to the sink, which equals what the sink holds only if the sink never writes short")
    n = 0
    for b in ctx.facts.doc["bodies"]:
        if b["key"].startswith(("testing::", "<testing::")):
            continue
        for blk in b["blocks"]:
            t = blk["term"]
            if blk.get("cleanup") or t["k"] != "call" or not t.get("callee"):
                continue
            c = t["callee"]
            full = c.get("rfull") or c.get("full") or ""
            if not re.search(r"WALRecord<T> as codeq::Encode>::encode::<", full):
                continue
            n += 1
            sink = full.split("encode::<", 1)[1].rsplit(">", 1)[0]
            where = "%s:%s" % (t.get("file", ""), t.get("line", ""))
            if re.match(r"^(&mut |&)?(std::vec::|alloc::vec::)?Vec<u8>$", sink) or re.match(r"^(&mut )?W$", sink):
                rep.ok("R12.11", "encode into %s in %s" % (sink, short_key(b["key"]).split("::")[-1]), "", where=where, nontrivial=False)
            else:
                rep.violation("R12.11", "%s|encode-into:%s" % (short_key(b["key"]).split("::")[-1], sink[:40]), "WALRecord::encode::<%s>" % sink,
                              "a record is encoded straight into `%s`: a short write makes the checksum writer digest the re-submitted bytes "
                              "twice, so the record on disk fails its own checksum although every call reported success" % sink, where=where)
    rep.floor("R12.11", "WALRecord::encode call sites", n, 1)


def run(ctx, rep):
    r12_10(ctx, rep)
    r12_11(ctx, rep)
    rep.rule("R12.1", "the encoder's variant->tag table is injective over all WALRecord variants and the decoder's tag->variant table is its inverse; unknown tags return Err")
    rep.rule("R12.2", "for every variant the sequence of encoded field types equals the sequence of decoded types, and decoded values land in the same field positions")
    rep.rule("R12.3", "RaftLogState: the version written is the only version accepted; encode order = decode order = all declared fields in declaration order")
    rep.rule("R12.4", "byte accounting: every write on the checksum writer contributes to the returned count (constant width or the callee's result)")
    rep.rule("R12.5", "= R09.1/R09.2 (checksum covers every byte; verified on every Ok path)")
    rep.rule("R12.6", "no panic-capable site in the decode cones")
    adt = ctx.facts.adts.get("raft_log::wal::wal_record::WALRecord")
    if not rep.expect("R12.1", "enum WALRecord", adt is not None):
        return
    variants = [v["name"] for v in adt["variants"]]
    vfields = {v["name"]: [re.sub(r"<T as api::types::Types>::", "T::", f["ty"]) for f in v["fields"]] for v in adt["variants"]}
    rep.floor("R12.1", "WALRecord variants", len(variants), 6)

    ge, Pe, enc = encode_tables(ctx, ctx.body_key(ENC))
    gd, Pd, dec_ok, dec_err = decode_tables(ctx, ctx.body_key(DEC))

    # ---------------- R12.1 -------------------------------------------------------------
    enc_tag = {}
    for v in variants:
        rows = enc.get(v)
        if not rows:
            rep.violation("R12.1", "encode|variant-not-encodable:%s" % v, "WALRecord::%s" % v, "no Ok path of the encoder for this variant",
                          where=ge.where(ge.entry))
            continue
        tags = {r[0] for r in rows}
        if len(tags) != 1 or None in tags:
            rep.unresolved("R12.1", "encode-tag:%s" % v, "cannot determine a unique tag constant for variant %s: %s" % (v, tags), where=ge.where(ge.entry))
            continue
        enc_tag[v] = tags.pop()
    inv = {}
    for v, k in enc_tag.items():
        if k in inv:
            rep.violation("R12.1", "encode|tag-collision:%s=%s" % (inv[k], v), "tag %d" % k,
                          "variants %s and %s are written with the same tag %d: one of them cannot be decoded back" % (inv[k], v, k),
                          where=ge.where(ge.entry))
        inv[k] = v
    dec_tag = {}
    for (tag, ver, seq, built) in dec_ok:
        recs = [b for b in built if b[0] == "WALRecord"]
        if len(recs) != 1 or tag is None:
            rep.unresolved("R12.1", "decode-path", "a decoder Ok path builds %d records with tag %s" % (len(recs), tag), where=gd.where(gd.entry))
            continue
        dec_tag.setdefault(tag, set()).add(recs[0][1])
    for v, k in sorted(enc_tag.items(), key=lambda x: x[1]):
        got = dec_tag.get(str(k))
        if got == {v}:
            rep.ok("R12.1", "tag %d <-> %s" % (k, v), "encoder writes %d, decoder builds %s for %d" % (k, v, k), where=gd.where(gd.entry))
        else:
            rep.violation("R12.1", "tag-mismatch:%s" % v, "tag %d / %s" % (k, v),
                          "the encoder writes tag %d for %s but the decoder builds %s for that tag" % (k, v, sorted(got) if got else "nothing"),
                          where=gd.where(gd.entry))
    extra = [k for k in dec_tag if k not in {str(x) for x in enc_tag.values()} and k != "otherwise"]
    for k in extra:
        rep.violation("R12.1", "decode|tag-without-encoder:%s" % k, "tag %s" % k,
                      "the decoder accepts tag %s which the encoder never writes: decoded records do not re-encode to the same bytes" % k,
                      where=gd.where(gd.entry))
    if "otherwise" in dec_tag:
        rep.violation("R12.1", "decode|unknown-tag-accepted", "otherwise",
                      "an unknown tag value decodes to %s instead of an error" % sorted(dec_tag["otherwise"]), where=gd.where(gd.entry))
    elif any(e[0] == "otherwise" for e in dec_err):
        rep.ok("R12.1", "unknown tag", "returns Err", where=gd.where(gd.entry), nontrivial=False)

    # ---------------- R12.2 -------------------------------------------------------------
    for v in variants:
        if v not in enc_tag:
            continue
        rows = enc[v]
        erow = sorted(rows, key=str)[0]
        eseq = [x for x in erow[1] if x[0] == "enc"]
        drows = [(t_, ver, seq, built) for (t_, ver, seq, built) in dec_ok if t_ == str(enc_tag[v])]
        if len(rows) != 1 or len(drows) != 1:
            rep.unresolved("R12.2", "paths:%s" % v, "expected one encoder and one decoder Ok path for %s, found %d/%d" % (v, len(rows), len(drows)))
            continue
        _t, _ver, dseq, built = drows[0]
        dd = [x for x in dseq if x[0] == "dec"]
        if v == "State":
            # nested RaftLogState: compare inner sequences in R12.3; here only the outer field
            etypes = [x[2] for x in eseq if not x[1].startswith("const")]
            dtypes = [x[1] for x in dd]
            # drop the version byte
            dtypes_nover = [t for t in dtypes if t != "u8"]
            etypes_nover = [x[2] for x in eseq if not x[1].startswith("const")]
            if etypes_nover == dtypes_nover:
                rep.ok("R12.2", "State: field type sequence", " | ".join(etypes_nover)[:120], where=gd.where(gd.entry))
            else:
                rep.violation("R12.2", "State|type-sequence", "State",
                              "encoded types %s but decoded types %s" % (etypes_nover, dtypes_nover), where=gd.where(gd.entry))
            continue
        etypes = [x[2] for x in eseq]
        dtypes = [x[1] for x in dd]
        eorder = [x[1] for x in eseq]
        declared = vfields[v]
        rec = [b for b in built if b[0] == "WALRecord"][0]
        pos_ok = list(rec[3]) == [x[2] for x in dd]
        if etypes == dtypes and eorder == [str(i) for i in range(len(declared))] and pos_ok:
            rep.ok("R12.2", "%s: field sequence" % v, "encode %s = decode %s, positions preserved" % (etypes, dtypes), where=gd.where(gd.entry))
        else:
            rep.violation("R12.2", "%s|field-sequence" % v, "WALRecord::%s" % v,
                          "encoder writes fields %s of types %s; decoder reads types %s and places them at %s" %
                          (eorder, etypes, dtypes, "declared positions" if pos_ok else "other positions"), where=gd.where(gd.entry))

    # ---------------- R12.3 -------------------------------------------------------------
    st = ctx.facts.adts.get("raft_log::state_machine::raft_log_state::RaftLogState")
    if rep.expect("R12.3", "struct RaftLogState", st is not None):
        declared = [f["name"] for f in st["variants"][0]["fields"]]
        gs, Ps, senc = encode_tables(ctx, ctx.body_key(SENC))
        rows = set()
        for v_, r in senc.items():
            rows |= r
        if len(rows) != 1:
            rep.unresolved("R12.3", "state-encode-paths", "expected one Ok path in RaftLogState::encode, found %d" % len(rows))
        else:
            seq = list(rows)[0][1]
            vers = [x[1] for x in seq if x[0] == "enc" and x[1].startswith("const:")]
            names = [x[1] for x in seq if x[0] == "enc" and not x[1].startswith("const:")]
            gsd, Psd, sd_ok, sd_err = decode_tables(ctx, ctx.body_key(SDEC))
            if names == declared:
                rep.ok("R12.3", "RaftLogState::encode field order", ", ".join(names), where=gs.where(gs.entry))
            else:
                rep.violation("R12.3", "state|encode-fields", "RaftLogState::encode",
                              "encoded fields %s differ from the declared fields %s (a field is missing, duplicated or out of order)" % (names, declared),
                              where=gs.where(gs.entry))
            written = vers[0].split(":")[1] if vers else None
            accepted = {ver for (_t, ver, _s, _b) in sd_ok}
            if written is not None and accepted == {written}:
                rep.ok("R12.3", "RaftLogState version", "written %s; every Ok decode path has established version == %s" % (written, written),
                       where=gsd.where(gsd.entry))
            else:
                rep.violation("R12.3", "state|version-accepted:%s" % ",".join(sorted(str(a) for a in accepted)), "RaftLogState::decode",
                              "the encoder writes version %s but the decoder has Ok paths with version facts %s: other version bytes are "
                              "accepted, so decoded bytes do not re-encode identically" % (written, sorted(str(a) for a in accepted)),
                              where=gsd.where(gsd.entry))
            for (_t, ver, dseq, built) in sd_ok:
                sb = [b for b in built if b[0] == "RaftLogState"]
                dd = [x for x in dseq if x[0] == "dec" and x[1] != "u8"]
                if len(sb) == 1 and list(sb[0][2]) == declared and list(sb[0][3]) == [x[2] for x in dd]:
                    rep.ok("R12.3", "RaftLogState::decode field order", "i-th decoded value -> i-th declared field (%d fields)" % len(declared),
                           where=gsd.where(gsd.entry))
                else:
                    rep.violation("R12.3", "state|decode-fields", "RaftLogState::decode",
                                  "decoded values are not assigned to the declared fields in order", where=gsd.where(gsd.entry))

    # ---------------- R12.4 -------------------------------------------------------------
    for key in (ctx.body_key(ENC), ctx.body_key(SENC)):
        g = ctx.graph(key)
        P = ctx.product(key)
        nm_ = short_key(key)

        def is_writer_event(n):
            t = g.term(n)
            if t.get("exp"):
                return None
            nm = cpath(t).split("::")[-1]
            if nm in WIDTH:
                return ("fixed", WIDTH[nm])
            if nm == "encode" and cmatch(t, r"codeq::Encode::encode$|impl codeq::Encode for"):
                return ("res", n)
            if nm == "write_checksum":
                return ("res", n)
            return None
        wev = {n: is_writer_event(n) for n in P.calls(None)}
        wev = {n: w for n, w in wev.items() if w}
        # inlined nested encoders contribute through their returned count
        nested = {n for n, sub in g.callee_inst.items() if re.search(r"codeq::Encode>::encode$", sub.key) and n in P.live}

        def op_locals(rv):
            out = []

            def op(o):
                if o and o["k"] in ("copy", "move"):
                    out.append(o["p"]["l"])
            k = rv["k"]
            if k in ("use", "cast", "unop", "repeat"):
                op(rv["a"])
            elif k == "binop":
                op(rv["a"])
                op(rv["b"])
            elif k in ("ref", "rawptr", "discr"):
                out.append(rv["p"]["l"])
            elif k == "agg":
                for f in rv["fields"]:
                    op(f)
            return out

        def step(ms, pi, qi, learn):
            pend, carry = set(ms[0]), set(ms[1])
            n = P.gnode(pi)
            inst = g.inst(n)
            if inst.id != 0:
                return (frozenset(pend), frozenset(carry))
            for s in g.stmts(n):
                if s["k"] != "assign":
                    continue
                rv = s["rv"]
                dst = s["p"]["l"]
                srcs = op_locals(rv)
                c = {i for (l, i) in carry if l in srcs}
                if rv["k"] == "binop":
                    c = {i for i in c if i[0] != "k"}          # a constant held in a local is consumed by the addition
                if rv["k"] == "binop" and rv["op"].startswith("Add"):
                    added = [int(o["int"]) for o in (rv["a"], rv["b"]) if o["k"] == "const" and "int" in o]
                    # `let head = TAG_SIZE; ... head + body`: the width arrives through a local that holds a constant
                    added += [i[1] for o in (rv["a"], rv["b"]) if o["k"] in ("copy", "move") and not o["p"]["proj"]
                              for (l, i) in carry if l == o["p"]["l"] and i[0] == "k"]
                    for w in added:
                        if True:
                            f = next((x for x in pend if x[0] == "f" and x[1] == w), None)
                            if f:
                                pend.discard(f)
                            else:
                                pend.add(("count-without-write", w, n))
                if not s["p"]["proj"]:
                    carry = {(l, i) for (l, i) in carry if l != dst}
                carry |= {(dst, i) for i in c}
                if rv["k"] == "use" and rv["a"]["k"] == "const" and "int" in rv["a"] and not s["p"]["proj"] and int(rv["a"]["int"]) != 0:
                    carry.add((dst, ("k", int(rv["a"]["int"]))))
            t = g.term(n)
            if t["k"] == "call":
                dl = t["dest"]["l"]
                srcs = [a["p"]["l"] for a in t["args"] if a["k"] in ("copy", "move")]
                c = {i for (l, i) in carry if l in srcs}
                carry = {(l, i) for (l, i) in carry if l != dl}
                if n in wev:
                    w = wev[n]
                    if w[0] == "fixed":
                        pend.add(("f", w[1], n))
                    else:
                        pend.add(("r", n))
                        carry.add((dl, ("r", n)))
                elif n in nested:
                    pend.add(("r", n))
                    carry.add((dl, ("r", n)))
                elif cmatch(t, r"ops::Try::branch$|ops::FromResidual"):
                    carry |= {(dl, i) for i in c}
                elif cmatch(t, r"slice::<impl \[T\]>::iter$|IntoIterator>?::into_iter$|iter::Iterator>?::(sum|copied|cloned)$|iter::Sum(<.*>)?>?::sum$|"
                               r"array::<impl .*>::(iter|into_iter|as_slice)$|ops::Deref::deref$"):
                    # the per-field counts gathered in an array / iterator and summed: the sum carries every one of them
                    carry |= {(dl, i) for i in c}
            return (frozenset(pend), frozenset(carry))

        seen = run_monitor(P, (frozenset(), frozenset()), step)
        bad = None
        for (pi, ms0, ms) in finals(P, seen, step):
            if P.gnode(pi) in g.exits and not exit_is_err(P, pi):
                pend, carry = ms
                ret = {i for (l, i) in carry if l == 0}
                left = [x for x in pend if not (x[0] == "r" and x in ret)]
                if left:
                    bad = (pi, left)
                    break
        if bad:
            it = sorted(bad[1], key=str)[0]
            where = g.where(it[-1]) if isinstance(it[-1], tuple) else g.where(g.entry)
            rep.violation("R12.4", "%s|uncounted-write:%s" % (nm_, {"f": "fixed-width", "r": "callee-count"}.get(it[0], it[0])), nm_,
                          "bytes are written to the record that are not added to the returned size (or a size is added without a write): "
                          "the caller's offsets drift from the file", where=where)
        else:
            rep.ok("R12.4", nm_, "every write (%d events, %d nested encoders) is matched by a contribution to the returned count" % (len(wev), len(nested)),
                   where=g.where(g.entry))

    # ---------------- R12.7 -------------------------------------------------------------
    rep.rule("R12.7", "the decoder consumes its input only through exact reads (read_uN / read_exact / nested Decode): a single `Read::read` "
                      "may legally return fewer bytes than asked for, so decoding would depend on how the reader slices the bytes")
    partial = [n for n in Pd.calls(r"io::Read::(read|read_vectored|read_buf|read_to_end|read_to_string|bytes|take)$") if not gd.term(n).get("exp")]
    for n in partial:
        rep.violation("R12.7", "decode|partial-read:%s" % cpath(gd.term(n)).split("::")[-1], cpath(gd.term(n)),
                      "the decoder uses a partial read: for a reader that returns fewer bytes per call (a BufReader boundary, a chained reader) "
                      "the bytes the encoder produced no longer decode to the record - and a spurious UnexpectedEof at a buffer boundary is "
                      "taken for a torn tail by recovery", where=gd.where(n))
    if not partial:
        rep.ok("R12.7", "WALRecord::decode", "only exact reads", where=gd.where(gd.entry))

    # ---------------- R12.12 ------------------------------------------------------------
    rep.rule("R12.12", "the decoder propagates every error of the reads and sub-decodes it performs: no io::Result in the decode cone is "
                       "turned into a default / Option / bool or left unused (bytes that do not decode would otherwise yield a record whose "
                       "re-encoding differs from them)")
    dropped = c09.dropped_results(ctx, gd, Pd)
    seen_d = set()
    for n, how in dropped:
        key = "decode|io-result-dropped:%s" % cpath(gd.term(n)).split("::")[-1]
        if key in seen_d:
            continue
        seen_d.add(key)
        rep.violation("R12.12", key, cpath(gd.term(n)), "an io::Result produced inside WALRecord::decode is %s: malformed bytes decode to a "
                      "record instead of an error, and that record does not re-encode to them" % how, where=gd.where(n))
    if not dropped:
        rep.ok("R12.12", "io::Result values in the decode cone", "none discarded (.ok()/unwrap_or*/is_ok/is_err on a temporary/unused)",
               where=gd.where(gd.entry))
    n_res = len([n for n in Pd.calls(None) if gd.term(n).get("dest_ty", "").startswith("std::result::Result<") and "std::io::Error>" in gd.term(n).get("dest_ty", "")])
    rep.floor("R12.12", "io::Result-returning calls in the decode cone", n_res, 6)

    # ---------------- R12.8 -------------------------------------------------------------
    r12_8(ctx, rep)
    r12_9(ctx, rep)

    # ---------------- R12.5 -------------------------------------------------------------
    c09.r09_1_2(ctx, _Rename(rep))

    # ---------------- R12.6 -------------------------------------------------------------
    n_sites = 0
    for n in sorted(Pd.live):
        t = gd.term(n)
        if t["k"] == "assert" and not t["synthetic"]:
            n_sites += 1
            rep.violation("R12.6", "decode|assert:%s" % t["akind"], t["akind"], "arithmetic that can panic on attacker-controlled bytes in the decoder",
                          where=gd.where(n))
        elif t["k"] == "call" and n not in gd.callee_inst and not t.get("exp") and \
                (cmatch(t, c16.MAYPANIC_RX) or cmatch(t, c16.EXPLICIT_PANIC_RX)):
            n_sites += 1
            rep.violation("R12.6", "decode|may-panic:%s" % cpath(t).split("::")[-1], cpath(t),
                          "a call that can panic on malformed input inside the decoder", where=gd.where(n))
    if not n_sites:
        rep.ok("R12.6", "decode cones", "no non-synthetic assert, unwrap/expect, indexing or explicit panic in WALRecord::decode / RaftLogState::decode",
               where=gd.where(gd.entry))


def r12_8(ctx, rep):
    """R12.8: crate-local io::Read adaptors (the offset-counting reader under the record scan): the consumed-byte counter advances by exactly
    the number of bytes the inner reader DELIVERED (the Ok value of the inner read), and that same count is returned."""
    rep.rule("R12.8", "every crate-local io::Read adaptor forwards to one inner read on the same buffer, returns the inner call's count, and every "
                      "counter it keeps advances by exactly that delivered count (not by the requested length): the record scan derives "
                      "each record's consumed size and every chunk offset from this counter")
    keys = [k for k, b in ctx.facts.bodies.items() if (b.get("impl_trait") or "").endswith("io::Read") and k.endswith("::read")]
    rep.floor("R12.8", "crate-local io::Read::read implementations", len(keys), 1)
    for k in keys:
        g = ctx.graph(k)
        P = ctx.product(k)
        nm_ = short_key(k)
        inner = [n for n in P.calls(r"io::Read::read$") if g.inst(n).id == 0]
        if len(inner) != 1:
            rep.violation("R12.8", "%s|inner-reads:%d" % (nm_, len(inner)), nm_, "expected exactly one forwarded inner read", where=g.where(g.entry))
            continue
        cn = inner[0]
        args = [strip_ids(a) for a in event_args(g, cn)]
        okv = None
        bad = []
        if not (len(args) == 2 and args[0][0] == "field" and strip_ids(args[0][1]) == ("arg", 1) and args[1] == ("arg", 2)):
            bad.append(("inner-read-args", "the inner read is not `self.<field>.read(buf)` on the caller's buffer: %s" % ", ".join(expr_s(a) for a in args), cn))
        n_cnt = 0
        # closures that a pass-through combinator (`inspect` / `map`) runs on the inner read's Ok value: their argument IS the delivered count
        delivered_insts = set()
        for cn2 in P.calls(r"result::Result::<T, E>::(inspect|map|and_then)$"):
            a2 = [strip_ids(x) for x in event_args(g, cn2)]
            if a2 and a2[0][0] == "call" and re.search(r"Read::read$", a2[0][1]):
                for sub in g.closure_insts.get(cn2, []):
                    delivered_insts.add(sub.id)

        def is_delivered(o):
            if o[0] == "okval" and o[1][0] == "call" and re.search(r"Read::read$", o[1][1]):
                return True
            return False

        def is_delivered_raw(o_raw):
            # un-stripped: ('cl_arg', inst id, k) of a delivered-count closure (possibly behind a deref that provenance erases)
            found = []

            def walk(x):
                if isinstance(x, tuple) and x:
                    if x[0] == "cl_arg" and x[1] in delivered_insts:
                        found.append(x)
                    for y in x:
                        walk(y)
            walk(o_raw)
            return bool(found) and isinstance(o_raw, tuple) and o_raw[0] == "cl_arg"
        for n in sorted(P.live):
            inst = g.inst(n)
            if inst.id != 0 and inst.id not in delivered_insts:
                continue
            for si, st in enumerate(g.stmts(n)):
                if st["k"] != "assign":
                    continue
                pl = st["p"]
                fld = [el for el in pl["proj"] if isinstance(el, dict) and "f" in el and (el.get("adt") or "") and not str(el.get("adt")).startswith("closure:")]
                if fld and pl["proj"] and pl["proj"][-1] is fld[-1]:
                    pe = strip_ids(g.prov_place(inst, pl))
                    if not (pe[0] == "field" and pe[1] == ("arg", 1)):
                        continue
                    raw = g.prov_rvalue(inst, st["rv"], (n, si))
                    e = strip_ids(raw)
                    fname = fld[-1].get("n")
                    # counters only: integer fields (flags and the like say nothing about how many bytes were consumed)
                    adt = ctx.facts.adts.get((fld[-1].get("adt") or ""))
                    fty = next((f["ty"] for v in (adt or {}).get("variants", []) for f in v["fields"] if f["name"] == fname), "")
                    if not re.match(r"(usize|u64|u32|u128|i64|isize)$", fty):
                        continue
                    n_cnt += 1
                    ok = False
                    x, xr = e, raw
                    if x[0] == "field" and x[1][0] == "binop":
                        x, xr = x[1], raw[1]
                    if x[0] == "binop" and x[1].startswith("Add"):
                        ops = [(x[2], xr[2]), (x[3], xr[3])]
                        isf = [o for o, _r in ops if o[0] == "field" and o[1] == ("arg", 1) and o[2] == fname]
                        isn = [o for o, r_ in ops if is_delivered(o) or is_delivered_raw(r_)]
                        ok = len(isf) == 1 and len(isn) == 1
                    if not ok:
                        bad.append(("counter:%s" % fname, "self.%s is set to %s, which is not `self.%s + <bytes delivered by the inner read>`"
                                    % (fname, expr_s(e), fname), n))
                if inst.id == 0 and pl["l"] == 0 and not pl["proj"] and st["rv"]["k"] == "agg" \
                        and "Ok" in str(st["rv"].get("variant", st["rv"].get("adt", ""))):
                    okv = strip_ids(g.prov_rvalue(inst, st["rv"], (n, si)))
        okx = okv[3][0] if okv and okv[0] == "agg" and len(okv) > 3 and okv[3] else None
        ret_ok = bool(okx and okx[0] == "okval" and okx[1][0] == "call" and re.search(r"Read::read$", okx[1][1]))
        if not ret_ok and okv is None:
            # the inner call's Result handed back as it is (possibly through inspect / inspect_err, which do not change it)
            for d in g.prog.defs(g.insts[0].key).get(0, []):
                if d[0] != "s":
                    x = strip_ids(g.prov_call(g.insts[0], d[1]))
                    while x[0] == "call" and re.search(r"result::Result::<T, E>::(inspect|inspect_err)$", x[1]) and x[2]:
                        x = x[2][0]
                    if x[0] == "call" and re.search(r"Read::read$", x[1]):
                        ret_ok = True
        if not ret_ok:
            bad.append(("returned-count", "the Ok value returned is %s, not the inner read's count" % (expr_s(okv) if okv else "?"), cn))
        for (what, detail, n) in bad:
            rep.violation("R12.8", "%s|%s" % (nm_, what), nm_, detail + ": after a short read (buffer refill boundary) the scan's offsets drift from the "
                          "file, so consumed sizes stop matching what the encoder reported", where=g.where(n))
        if not bad:
            rep.ok("R12.8", nm_, "one inner read on the caller's buffer; %d counter update(s) = field + delivered count; returns the delivered count" % n_cnt,
                   where=g.where(cn))


def _uncast(e):
    while isinstance(e, tuple) and e and e[0] in ("cast",):
        e = e[1]
    return e


def _accessor_summary(ctx, path):
    """return expression of a crate accessor (by resolved path) in terms of its arguments, or None"""
    keys = [k for k in ctx.facts.bodies if re.sub(r"::<[^>]*>", "", k) == re.sub(r"::<[^>]*>", "", path)]
    if len(keys) != 1:
        return None
    g = ctx.graph(keys[0])
    e = _uncast(g.prov_local(g.insts[0], 0))
    if isinstance(e, tuple) and e and e[0] == "field" and isinstance(e[1], tuple) and e[1][0] == "binop" and e[2] == "0":
        e = e[1]            # checked arithmetic: (value, overflowed).0
    return e


def _difference_accessor(ctx, g, a0, a1, acc_rx):
    """a1 = reader.since(a0) where `since(&self, x)` returns `self.F - x` and a0 = reader.acc() returns `self.F`: the node of a1's call"""
    if not (isinstance(a1, tuple) and a1 and a1[0] == "call" and re.search(acc_rx, a1[1]) and a0[0] == "call" and re.search(acc_rx, a0[1])):
        return None
    s0, s1 = _accessor_summary(ctx, a0[1]), _accessor_summary(ctx, a1[1])
    if not (s0 and s0[0] == "field" and s0[1] == ("arg", 1)):
        return None
    if not (s1 and s1[0] == "binop" and s1[1].startswith("Sub") and _uncast(s1[2]) == s0 and _uncast(s1[3])[0] == "arg"):
        return None
    k = _uncast(s1[3])[1]
    if k < 2 or k > len(a1[2]) or _uncast(a1[2][k - 1]) != a0:
        return None
    if strip_ids(a1[2][0]) != strip_ids(a0[2][0]):        # the same reader
        return None
    return a1[3]


def r12_9(ctx, rep):
    """R12.9: the record scan (the Iterator whose next() runs WALRecord::decode on the counting reader) reports, for every decoded record,
    the segment (counter before the decode, counter after - counter before), and yields no error of its own making."""
    rep.rule("R12.9", "the record scan attributes to each decoded record exactly the bytes the decoder consumed: the segment it yields is "
                      "(reader counter read before decode, counter read after decode - that same earlier value), and every io::Error it "
                      "constructs derives from the decoder's error (a scan that refuses or mis-sizes a record the decoder accepts breaks "
                      "'decode consumes what encode reported' for every consumer of the scan: open, dump)")
    adaptors = sorted({(ctx.facts.bodies[k].get("impl_self") or "") for k in ctx.facts.bodies
                       if (ctx.facts.bodies[k].get("impl_trait") or "").endswith("io::Read") and k.endswith("::read")})
    names = [re.sub(r"<.*$", "", a).split("::")[-1] for a in adaptors if a]
    scans = []
    for k, b in ctx.facts.bodies.items():
        if (b.get("impl_trait") or "").endswith("iter::Iterator") and k.endswith("::next"):
            adt = ctx.facts.adts.get(re.sub(r"<.*$", "", b.get("impl_self") or ""))
            has_adaptor = adt and any(any(nm in f["ty"] for nm in names) for v in adt["variants"] for f in v["fields"])
            if has_adaptor and inlined_calls(ctx.graph(k), c09.DECODE_KEY):
                scans.append(k)
    if not rep.expect("R12.9", "record scan iterator(s) over the counting reader", len(scans) >= 1 and names, "found %d scan(s), adaptors %s" % (len(scans), names)):
        return
    acc_rx = r"(%s)::<\w+>::(?!new$|read$)\w+$|(%s)::(?!new$|read$)\w+$" % ("|".join(map(re.escape, names)), "|".join(map(re.escape, names)))
    for k in scans:
        g = ctx.graph(k)
        P = ctx.product(k)
        nm_ = short_key(k)
        decs = [n for n in inlined_calls(g, c09.DECODE_KEY, P.live)]      # in next() itself or in a private helper of it
        segs = [n for n in P.calls(r"Segment::<C>::new$|Segment::new$") if not g.term(n).get("exp")]
        if not rep.expect("R12.9", "%s: one decode, one segment construction" % nm_, len(decs) == 1 and len(segs) == 1,
                          "found %d decode call(s), %d Segment::new" % (len(decs), len(segs)), where=g.where(g.entry)):
            continue
        dec, seg = decs[0], segs[0]
        with g.with_opaque(acc_rx):
            a = [x for x in event_args(g, seg)]
        a0, a1 = _uncast(a[0]), _uncast(a[1])
        if a1 and a1[0] == "field" and a1[1][0] == "binop":
            a1 = a1[1]
        ok_shape = (a0[0] == "call" and re.search(acc_rx, a0[1]) and a1[0] == "binop" and a1[1].startswith("Sub")
                    and _uncast(a1[2])[0] == "call" and re.search(acc_rx, _uncast(a1[2])[1]) and _uncast(a1[3]) == a0
                    and _uncast(a1[2])[3] != a0[3] and _uncast(a1[2])[1] == a0[1])
        c2n = _uncast(a1[2])[3] if ok_shape else None
        if not ok_shape:
            # (before, reader.since(before)): the subtraction lives in an accessor of the counting reader
            d = _difference_accessor(ctx, g, a0, a1, acc_rx)
            if d is not None:
                ok_shape, c2n = True, d
        if not ok_shape:
            rep.violation("R12.9", "%s|segment-not-(before, after-before)" % nm_, "%s: Segment::new" % nm_,
                          "the segment yielded with a decoded record is (%s, %s), not (counter before decode, counter after - counter before): "
                          "record offsets/sizes reported by the scan differ from what the decoder consumed"
                          % (expr_s(strip_ids(a[0]))[:60], expr_s(strip_ids(a[1]))[:90]), where=g.where(seg))
        else:
            c1, c2 = a0[3], c2n

            def step(ms, pi, qi, learn):
                n = P.gnode(pi)
                s1, s2, s3 = ms
                if n == c1:
                    s1, s2, s3 = True, False, False
                if n == dec:
                    s2 = s1
                    s3 = False
                if n == c2:
                    s3 = s2
                return (s1, s2, s3)
            seen = run_monitor(P, (False, False, False), step)
            bad = [(pi, ms) for (pi, ms) in seen if P.gnode(pi) == seg and ms[1] and not (ms[0] and ms[2])]   # paths without a decode cannot reach the Ok closure
            at_dec = [(pi, ms) for (pi, ms) in seen if P.gnode(pi) == dec and not ms[0]]
            if bad or at_dec:
                rep.violation("R12.9", "%s|counter-reads-misordered" % nm_, "%s: order of counter reads" % nm_,
                              "the 'before' value is not read before the decode, or the 'after' value not after it, on some path", where=g.where(seg))
            else:
                rep.ok("R12.9", "%s: segment" % nm_, "(%s read before decode, the same accessor read after decode - that value)" % a0[1].split("::")[-1],
                       where=g.where(seg))
        # errors of its own making
        made = []
        for n in P.calls(r"io::Error::new$|io::Error::other$|io::Error::from$|convert::From<io::ErrorKind>"):
            if g.term(n).get("exp") or g.inst(n).id != 0 and g.inst(n).kind != "closure":
                continue
            if g.inst(n).id != 0:
                # closures of the scan itself count (map/context closures); inlined callees (the decoder) do not
                i = g.inst(n)
                if i.parent is None or i.parent.id != 0:
                    continue
            args = [strip_ids(x) for x in event_args(g, n)]
            def holds_decoder(node):
                sub_ = g.callee_inst.get(node)
                if sub_ is None:
                    return False
                for dn in decs:
                    i_ = g.inst(dn)
                    while i_ is not None:
                        if i_ is sub_:
                            return True
                        i_ = i_.parent
                return False
            from_dec = lambda y: isinstance(y, tuple) and y and y[0] in ("errval", "err_of", "residual") \
                or (isinstance(y, tuple) and len(y) > 1 and y[0] in ("call", "ret") and re.search(r"Decode>?::decode$", str(y[1]))) \
                or (isinstance(y, tuple) and len(y) > 3 and y[0] in ("ret", "call") and isinstance(y[3], tuple) and holds_decoder(y[3]))
            derived = any(contains(x, from_dec) for x in args)
            if not derived:
                # the error handed to an `inspect_err` / `map_err` / `or_else` closure whose receiver comes from the decoder
                def err_arg(y):
                    if isinstance(y, tuple) and y and y[0] == "cl_arg" and isinstance(y[1], int):
                        ci = g.insts[y[1]]
                        if ci.parent is not None:
                            cn_ = (ci.parent.id, ci.call_bb)
                            t_ = g.term(cn_)
                            if t_["k"] == "call" and re.search(r"result::Result::<T, E>::(inspect_err|map_err|or_else)$", t_["callee"]["path"]):
                                a_ = event_args(g, cn_)
                                return bool(a_) and (contains(a_[0], from_dec) or contains(strip_ids(a_[0]), from_dec))
                    return False
                derived = any(contains(x, err_arg) for x in event_args(g, n))
            if not derived:
                made.append(n)
        for n in made:
            rep.violation("R12.9", "%s|error-not-from-decoder" % nm_, "%s: io::Error::new" % nm_,
                          "the scan constructs an error that does not derive from the decoder's result (%s): a record the decoder would accept "
                          "can be refused - and an UnexpectedEof made up here is taken for a torn tail by recovery"
                          % ", ".join(expr_s(strip_ids(x))[:50] for x in event_args(g, n)), where=g.where(n))
        if not made:
            rep.ok("R12.9", "%s: errors" % nm_, "every error constructed by the scan derives from the decoder's error", where=g.where(dec))


class _Rename:
    def __init__(self, rep):
        self.rep = rep

    def rule(self, *a):
        pass

    def __getattr__(self, name):
        f = getattr(self.rep, name)
        if name in ("ok", "violation", "unresolved", "floor", "expect"):
            def g(rule, *a, **kw):
                return f("R12.5/" + rule, *a, **kw)
            return g
        return f
