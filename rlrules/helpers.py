"""Shared predicates over provenance expressions and events (role discovery by std/public API names
and the state fields named in the properties' anchors -- never private function names)."""
import re

from engine import cmatch, cpath, expr_s, contains, strip_ids, norm_learn, OKV, ERRV

WRITER_RX = r"RaftLog<T> as api::raft_log_writer::RaftLogWriter<T>>::(%s)$"
WRITER_OPS = ["save_user_data", "save_vote", "append", "truncate", "purge", "commit"]


def is_field(e, name):
    return isinstance(e, tuple) and len(e) == 3 and e[0] == "field" and e[2] == name


def is_field_nt(e, name):
    """is_field, looking through newtype wrappers: `x.name`, `x.name.0`, `x.name.0.0` (a private tuple struct around the value)"""
    while isinstance(e, tuple) and len(e) == 3 and e[0] == "field" and e[2] != name and re.match(r"^\d+$", str(e[2])):
        e = e[1]
    return is_field(e, name)


def has_field(e, name):
    return contains(e, lambda x: is_field(x, name))


def call_is(e, rx):
    return isinstance(e, tuple) and e and e[0] in ("call", "ret") and re.search(rx, e[1]) is not None


def call_arg(e, i):
    return e[2][i] if len(e[2]) > i else None


def is_const(e, v=None):
    return isinstance(e, tuple) and e and e[0] == "const" and (v is None or str(e[1]) == str(v))


def is_index(e, base_pred, k=None):
    """base[k] through Index::index / IndexMut::index_mut / MIR Index projection"""
    if call_is(e, r"ops::Index(Mut)?<I>>::index(_mut)?$|ops::Index(Mut)?::index(_mut)?$"):
        return base_pred(call_arg(e, 0)) and (k is None or is_const(call_arg(e, 1), k))
    if isinstance(e, tuple) and e and e[0] == "idx":
        return base_pred(e[1]) and (k is None or is_const(e[2], k))
    return False


def is_last(e, base_pred):
    return call_is(e, r"slice::<impl \[T\]>::last(_mut)?$|Vec::<T, A>::last(_mut)?$") and base_pred(call_arg(e, 0))


def event_args(g, n):
    t = g.term(n)
    inst = g.inst(n)
    return [g.prov_operand(inst, a) for a in t["args"]]


def origin_call(origin):
    """graph node of the call whose result an origin describes, or None"""
    if isinstance(origin, tuple) and origin and origin[0] == "call":
        return origin[1]
    return None


def origin_stmt_expr(g, origin):
    """provenance of a comparison statement origin ('stmt', node, si)"""
    if isinstance(origin, tuple) and origin and origin[0] == "stmt":
        n, si = origin[1], origin[2]
        s = g.stmts(n)[si]
        return g.prov_rvalue(g.inst(n), s["rv"], (n[0], n[1], si))
    return None


def origin_place_expr(g, origin):
    """provenance of the place whose discriminant was switched on, for a ('place', slot, node) origin"""
    if isinstance(origin, tuple) and origin and origin[0] == "place":
        n = origin[2]
        t = g.term(n)
        if "dplace" in t:
            return g.prov_place(g.inst(n), t["dplace"])
        if t["k"] == "switch" and t["discr"]["k"] in ("copy", "move"):
            return g.prov_place(g.inst(n), t["discr"]["p"])
        if t["k"] == "call" and t.get("args") and re.search(r"::(as_ref|as_mut|as_deref|as_deref_mut)$", t["callee"]["path"]):
            # origin created at a view (`opt.as_ref()`): the fact is about the viewed place
            return g.prov_operand(g.inst(n), t["args"][0])
    return None


def fmt_chain(g, n):
    ch = g.chain(n)
    return " > ".join(short_key(k) for k in ch)


def short_key(k):
    k = re.sub(r"raft_log::raft_log::", "", k)
    k = re.sub(r"raft_log::", "", k)
    k = re.sub(r"::<T>", "", k)
    return k


def sig_takes_self_by_value(sig):
    m = re.match(r"^(for<[^>]*> )?(unsafe )?(extern \"[^\"]*\" )?fn\(([^,)]*)", sig)
    return bool(m) and m.group(4).strip() == "Self"


def learned_targets(P, pred):
    """product nodes entered by an edge on which some (origin, variant) satisfying pred is learned"""
    out = []
    for pi, es in P.succ.items():
        for qi, learn in es:
            if learn and any(pred(o, v) for o, v in norm_learn(learn)):
                out.append(qi)
    return sorted(set(out))


def inlined_calls(g, key_rx, live=None):
    """call nodes whose (inlined) callee key matches key_rx"""
    out = [n for n, sub in g.callee_inst.items() if re.search(key_rx, sub.key)]
    if live is not None:
        out = [n for n in out if n in live]
    return sorted(out)


def call_outcome(P, cn):
    """returns f(pi, qi, learn) -> 'ok' | 'err' | None : does crossing this product edge establish the
    outcome of call `cn` (an event call, or an inlined call returning Result/Option)?"""
    g = P.g
    sub = g.callee_inst.get(cn)
    t = g.term(cn)
    tgt = (cn[0], t.get("target")) if t.get("target") is not None else None
    dslot = g.slot_of(g.inst(cn), t["dest"])

    def f(pi, qi, learn):
        for o, v in norm_learn(learn):
            if origin_call(o) == cn:
                if v in OKV:
                    return "ok"
                if v in ERRV:
                    return "err"
        if qi is not None and sub is not None and tgt is not None and P.gnode(qi) == tgt and P.gnode(pi)[0] == sub.id:
            tag = dict(P.nodes[qi][1]).get(dslot)
            if tag:
                if tag[0] in OKV:
                    return "ok"
                if tag[0] in ERRV:
                    return "err"
        return None
    return f


def exit_is_err(P, pi):
    tag = P.tags_after_block(pi).get((0, 0, ()))
    return bool(tag and tag[0] in ("Err", "None"))


def mut_first_arg(g, n):
    """is the first argument of the call at n a `&mut` reference?"""
    t = g.term(n)
    if not t["args"] or t["args"][0]["k"] not in ("copy", "move"):
        return False
    l = t["args"][0]["p"]["l"]
    return g.inst(n).body["locals"][l]["ty"].startswith("&mut ")


def ctor_value(ctx, e):
    """value a struct field had when its (known) aggregate was built: ('field', ('agg', adt, var, fields), name) -> fields[i]"""
    if isinstance(e, tuple) and len(e) == 3 and e[0] == "field" and isinstance(e[1], tuple) and e[1] and e[1][0] == "agg":
        a = ctx.facts.adts.get(e[1][1])
        if a:
            names = [f["name"] for f in a["variants"][0]["fields"]]
            if e[2] in names and names.index(e[2]) < len(e[1][3]):
                return e[1][3][names.index(e[2])]
    return None


def field_assigned(g, live, name):
    """is a field called `name` assigned (through a pointer) anywhere in the live part of the graph?"""
    for n in live:
        for s in g.stmts(n):
            if s["k"] == "assign" and s["p"]["proj"]:
                last = [el for el in s["p"]["proj"] if isinstance(el, dict) and "f" in el]
                if last and last[-1].get("n") == name:
                    return True
    return False


def returned_calls(g):
    """call nodes whose Result the entry function returns directly (possibly through map_err/context/inlined callees), i.e. without a
    `?` in between: an Ok return then implies that call returned Ok"""
    out = set()
    inst = g.insts[0]

    def walk(x, depth=0):
        if not isinstance(x, tuple) or not x or depth > 12:
            return
        if x[0] == "call" and len(x) > 3 and isinstance(x[3], tuple):
            out.add(x[3])
            if re.search(r"Result::<T, E>::(map_err|or_else|inspect_err|inspect)$|ErrorContextExt|::context$", str(x[1])) and x[2]:
                walk(x[2][0], depth + 1)
            return
        if x[0] in ("ret",) and len(x) > 3:
            out.add(x[3])
            return
    for d in g.prog.defs(inst.key).get(0, []):
        if d[0] == "s":
            st = inst.body["blocks"][d[1]]["stmts"][d[2]]
            if st["k"] == "assign" and not st["p"]["proj"]:
                walk(g.prov_rvalue(inst, st["rv"], (inst.id, d[1], d[2])))
        else:
            walk(g.prov_call(inst, d[1]))
    return out


def carried_assignments(g, live, e):
    """all values ever stored into a loop-carried variable: a multiply-defined local (('var', inst, local)), or a field of a local struct
    value (('field', ('agg', adt, ..), name)): its initial value in the aggregate plus every live assignment to that field.
    Returns a list of stripped provenance expressions, or None when `e` is neither."""
    if isinstance(e, tuple) and e and e[0] == "var":
        inst0 = g.insts[e[1]]
        out = []
        for d in g.prog.defs(inst0.key).get(e[2], []):
            if d[0] == "s":
                st = inst0.body["blocks"][d[1]]["stmts"][d[2]]
                out.append(strip_ids(g.prov_rvalue(inst0, st["rv"], None)))
            else:
                out.append(strip_ids(g.prov_call(inst0, d[1])))
        return out
    if isinstance(e, tuple) and e and e[0] == "field" and isinstance(e[1], tuple) and e[1] and e[1][0] == "agg" and isinstance(e[2], str):
        agg, name = e[1], e[2]
        out = []
        adt = g.prog.facts.adts.get(agg[1]) if hasattr(g.prog, "facts") else None
        names = None
        if adt is not None and not adt["is_enum"]:
            names = [f["name"] for f in adt["variants"][0]["fields"]]
        if names and name in names and len(agg) > 3 and len(agg[3]) == len(names):
            out.append(strip_ids(agg[3][names.index(name)]))
        else:
            return None
        for n in live:
            inst = g.inst(n)
            for si, st in enumerate(g.stmts(n)):
                if st["k"] == "assign" and st["p"]["proj"]:
                    fl = [el for el in st["p"]["proj"] if isinstance(el, dict) and "f" in el]
                    if fl and fl[-1].get("n") == name and (fl[-1].get("adt") or "") == agg[1] \
                            and st["p"]["proj"][-1] is fl[-1]:
                        out.append(strip_ids(g.prov_rvalue(inst, st["rv"], None)))
        return out
    return None


ITER_ADAPTORS = r"iter::Iterator>?::(for_each|try_for_each|try_fold|fold|map|filter_map|inspect|all|any|find_map)$"


def element_boundaries(g, P, src_pred):
    """graph nodes at which the processing of the next element of an iterated source begins: `next()` calls on an iterator over the
    source, and the entry blocks of closures handed to an iteration adaptor over it (`src.into_iter().try_for_each(|x| ..)`).
    src_pred is applied to the stripped provenance of the iterator argument."""
    out = set()
    for n in P.calls(r"iter::Iterator>?::next$"):
        a = event_args(g, n)
        if a and src_pred(strip_ids(a[0])):
            out.add(n)
    for n in P.calls(ITER_ADAPTORS):
        a = event_args(g, n)
        if a and src_pred(strip_ids(a[0])):
            for sub in g.closure_insts.get(n, []):
                out.add((sub.id, 0))
    return out


def element_iterator(g, P, elem_expr_raw):
    """(iterator expression (stripped), node) that an element value comes from: `okval(next(it))` in a loop, or the argument of a closure
    that an iteration adaptor runs once per element; elem_expr_raw is UN-stripped provenance. None when neither."""
    found = []

    def walk(x):
        if not isinstance(x, tuple) or not x:
            return
        if x[0] == "call" and len(x) > 3 and re.search(r"iter::Iterator>?::next$", str(x[1])) and x[2]:
            found.append((strip_ids(x[2][0]), x[3]))
            return
        if x[0] == "cl_arg" and isinstance(x[1], int):
            inst = g.insts[x[1]]
            if inst.parent is not None:
                cn = (inst.parent.id, inst.call_bb)
                t = g.term(cn)
                if t["k"] == "call" and re.search(ITER_ADAPTORS, t["callee"]["path"]) and inst in g.closure_insts.get(cn, []):
                    a = event_args(g, cn)
                    if a:
                        found.append((strip_ids(a[0]), cn))
            return
        for y in x:
            walk(y)
    walk(elem_expr_raw)
    return found[0] if found else None


# --------------------------------------------------------------------------------------
# may-sources of a value: looks through inlined callees that build their result in several places, mutable locals with several
# whole-value stores, and the pass-through combinators of Option / Result
# --------------------------------------------------------------------------------------
_PASS_OK = re.compile(r"(Result::<T, E>|Option::<T>)::(map_err|inspect_err|inspect|or_else|ok_or|ok_or_else|context|with_context|"
                      r"as_ref|as_mut|cloned|copied)$|ErrorContextExt.*::context$")
_MAP = re.compile(r"(Result::<T, E>|Option::<T>)::map$")


def _defs_exprs(g, inst, local):
    out = []
    for d in g.prog.defs(inst.key).get(local, []):
        if d[0] == "s":
            st = inst.body["blocks"][d[1]]["stmts"][d[2]]
            if st["k"] == "assign" and not st["p"]["proj"]:
                out.append(g.prov_rvalue(inst, st["rv"], (inst.id, d[1], d[2])))
        else:
            t = inst.body["blocks"][d[1]]["term"]
            if not t["dest"]["proj"]:
                out.append(g.prov_call(inst, d[1]))
    return out


def ok_sources(g, e, depth=0):
    """payload expressions the Ok / Some variant of the Result / Option value e may carry"""
    if depth > 14 or not isinstance(e, tuple) or not e:
        return {("okval", e)}
    h = e[0]
    if h == "agg" and len(e) > 3 and e[2] in ("Ok", "Some") and e[3]:
        return {e[3][0]}
    if h == "agg" and len(e) > 3 and e[2] in ("Err", "None"):
        return set()
    if h in ("err_of", "residual", "errval"):
        return set()
    if h == "ret" and len(e) > 3:
        sub = g.callee_inst.get(e[3])
        if sub is not None:
            out = set()
            for x in _defs_exprs(g, sub, 0):
                out |= ok_sources(g, x, depth + 1)
            return out
    if h == "var":
        out = set()
        for x in _defs_exprs(g, g.insts[e[1]], e[2]):
            out |= ok_sources(g, x, depth + 1)
        return out or {("okval", e)}
    if h == "call" and len(e) > 2 and e[2]:
        if _PASS_OK.search(e[1]):
            return ok_sources(g, e[2][0], depth + 1)
        if _MAP.search(e[1]) and len(e[2]) > 1 and isinstance(e[2][1], tuple) and e[2][1] and e[2][1][0] == "fn" \
                and re.search(r"(^|::)Some$", str(e[2][1][1])):
            return {("agg", "std::option::Option", "Some", (x,)) for x in ok_sources(g, e[2][0], depth + 1)}
        if re.search(r"bool(::<impl bool>)?::then_some$", e[1]) and len(e[2]) > 1:
            return {e[2][1]}
        if re.search(r"bool(::<impl bool>)?::then$|(Result::<T, E>|Option::<T>)::(map|and_then)$", e[1]) and len(e) > 3:
            # the closure's own return value(s): Some(ret) for then/map, ret itself (an Option/Result) for and_then
            cis = g.closure_insts.get(e[3], [])
            if len(cis) == 1:
                out = set()
                for x in _defs_exprs(g, cis[0], 0):
                    if e[1].endswith("and_then"):
                        out |= ok_sources(g, x, depth + 1)
                    else:
                        out.add(x)
                if out:
                    return out
    if h == "okval":
        out = set()
        for x in ok_sources(g, e[1], depth + 1):
            out |= ok_sources(g, x, depth + 1)
        return out
    return {("okval", e)}


def value_sources(g, e, depth=0):
    """leaf expressions a value may come from (see ok_sources)"""
    if depth > 14 or not isinstance(e, tuple) or not e:
        return {e}
    h = e[0]
    if h == "okval":
        out = set()
        for x in ok_sources(g, e[1], depth + 1):
            out |= value_sources(g, x, depth + 1)
        return out
    if h == "var":
        xs = _defs_exprs(g, g.insts[e[1]], e[2])
        if xs:
            out = set()
            for x in xs:
                out |= value_sources(g, x, depth + 1)
            return out
        return {e}
    if h == "ret" and len(e) > 3:
        sub = g.callee_inst.get(e[3])
        if sub is not None:
            out = set()
            for x in _defs_exprs(g, sub, 0):
                out |= value_sources(g, x, depth + 1)
            return out or {e}
    if h == "agg" and len(e) > 3 and e[2] == "Some" and str(e[1]).endswith("Option") and e[3]:
        return {("agg", e[1], "Some", (x,)) for x in value_sources(g, e[3][0], depth + 1)}
    if h == "field" and isinstance(e[1], tuple) and e[1] and e[1][0] in ("okval", "var", "ret"):
        return {("field", x, e[2]) for x in value_sources(g, e[1], depth + 1)}
    return {e}


# --------------------------------------------------------------------------------------
# roles around chunk-file creation
# --------------------------------------------------------------------------------------
_OO_FLAGS = r"fs::OpenOptions::(read|write|append|truncate|create|create_new)$"


def open_flags(g, n):
    """flags set to true on the OpenOptions an `OpenOptions::open` event at n is called on: through the builder chain in the receiver's
    provenance, or through `&mut` calls on the same options value (`let mut o = OpenOptions::new(); o.create_new(true); o.open(p)`)"""
    flags = set()
    a = event_args(g, n)
    if not a:
        return flags
    recv = a[0]

    def chain(e):
        if isinstance(e, tuple) and e and e[0] == "call" and re.search(_OO_FLAGS, str(e[1])) and len(e[2]) > 1:
            if e[2][1] == ("const", "1"):
                flags.add(e[1].split("::")[-1])
            chain(e[2][0])
        elif isinstance(e, tuple):
            for x in e:
                if isinstance(x, tuple):
                    chain(x)
    chain(recv)

    def root(e):
        while isinstance(e, tuple) and e and e[0] == "call" and re.search(_OO_FLAGS, str(e[1])) and e[2]:
            e = e[2][0]
        return e
    r0 = root(recv)
    inst = g.inst(n)
    for m in g.nodes:
        if g.inst(m) is not inst:
            continue
        t = g.term(m)
        if t["k"] == "call" and m not in g.callee_inst and cmatch(t, _OO_FLAGS):
            b = event_args(g, m)
            if len(b) > 1 and root(b[0]) == r0 and b[1] == ("const", "1"):
                flags.add(cpath(t).split("::")[-1])
                # the rest of that builder chain
                chain(b[0])
    return flags


def creates_file(g, n, kinds=("create_new",)):
    return bool(open_flags(g, n) & set(kinds))


_creators_memo = {}


def chunk_creators(ctx):
    """keys of the chunk-creating function(s): the innermost crate-local function that has the create_new open in its call cone AND receives
    the head record (a WALRecord parameter) - whether the open itself sits in it or in a private helper below it"""
    key = id(ctx)
    if key in _creators_memo:
        return _creators_memo[key]
    bodies = {b["key"]: b for b in ctx.facts.doc["bodies"] if not b["key"].startswith(("testing::", "<testing::"))}
    callers = {}
    base = set()
    for k, b in bodies.items():
        for blk in b["blocks"]:
            if blk.get("cleanup"):
                continue
            t = blk["term"]
            if t["k"] != "call" or not t.get("callee"):
                continue
            c = t["callee"]
            if re.search(r"fs::OpenOptions::create_new$", c.get("path", "")):
                base.add(k)
            rk = c.get("rkey")
            if rk and rk in bodies:
                callers.setdefault(rk, set()).add(k)

    def takes_record(b):
        tys = [l.get("ty", "") for l in b.get("locals", [])[1:1 + b.get("argc", 0)]]
        return any(re.search(r"(^|[^\w:])(\w+::)*WALRecord<", t) for t in tys)
    out, seen, work = set(), set(), list(base)
    while work:
        k = work.pop()
        if k in seen:
            continue
        seen.add(k)
        b = bodies[k]
        if takes_record(b):
            out.add(k)
            continue
        parent = k.rsplit("::{closure", 1)[0] if "::{closure" in k else None
        ups = set(callers.get(k, ()))
        if parent and parent in bodies:
            ups.add(parent)
        work.extend(ups)
    if not out:
        out = set(base)
    _creators_memo[key] = out
    return out


def strip_pass(e):
    """remove Option/Result pass-through combinators (ok_or_else, map_err, context, inspect_err, ...) around a value: what they hand on
    in the Ok/Some case is the payload of their receiver"""
    if not isinstance(e, tuple):
        return e
    if e and e[0] == "call" and len(e) > 2 and e[2] and _PASS_OK.search(str(e[1])):
        return strip_pass(e[2][0])
    return tuple(strip_pass(x) if isinstance(x, tuple) else x for x in e)


def contains_src(g, e, pred, depth=0):
    """contains(), also looking through what a nested value may come from (helper results built in several places, locals with several
    stores, pass-through combinators).  e must be UN-stripped provenance (call identities are needed to find the callee instances)."""
    if depth > 8:
        return False
    if pred(strip_ids(e) if isinstance(e, tuple) else e):
        return True
    if not isinstance(e, tuple) or not e:
        return False
    if e[0] in ("okval", "ret", "var"):
        for x in value_sources(g, e):
            if x != e and contains_src(g, x, pred, depth + 1):
                return True
    return any(contains_src(g, x, pred, depth) for x in e if isinstance(x, tuple))


def canon_vars(g, e, depth=0):
    """a local that is only a renamed hand-over of another value (`let mut b = helper(..)` where helper returns its own local; later
    field stores do not change which object it is) is replaced by that value, so that both names denote one object.
    e is UN-stripped provenance."""
    if depth > 6 or not isinstance(e, tuple) or not e:
        return e
    if e[0] == "var" and len(e) == 3 and isinstance(e[1], int):
        whole = _defs_exprs(g, g.insts[e[1]], e[2])
        if len(whole) == 1 and isinstance(whole[0], tuple) and whole[0] and whole[0] != e:
            w = whole[0]
            if w[0] == "var":
                return canon_vars(g, w, depth + 1)
            if w[0] == "ret":
                src = value_sources(g, w)
                if len(src) == 1:
                    x = next(iter(src))
                    if isinstance(x, tuple) and x and x[0] == "var" and x != e:
                        return canon_vars(g, x, depth + 1)
        return e
    return tuple(canon_vars(g, x, depth) if isinstance(x, tuple) else x for x in e)
