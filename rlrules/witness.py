"""E3: run the compile-fail witnesses (thorough tier) and file their verdicts as obligations."""
import os
import re
import shutil
import subprocess

from common import VERIF

WITNESSES = {
    "C04": [("W04CallbackOnce", "R04.4")],
    "C07": [("W07NoWriteDuringRead", "R07.7"), ("W07SendSync", "R07.7")],
    "C13": [("W13NoForgedRaftLog", "R13.4"), ("W13LockTypePrivate", "R13.4"), ("W13NoForgedDump", "R13.4")],
}


def run(pid, rep, repo="/repo"):
    if pid not in WITNESSES or os.path.realpath(repo) != "/repo":
        return None
    wdir = os.path.join(VERIF, "witness")
    shutil.copy(os.path.join(repo, "Cargo.lock"), os.path.join(wdir, "Cargo.lock"))
    env = dict(os.environ, CARGO_TARGET_DIR=os.path.join(VERIF, ".cache", "target-witness"), CARGO_NET_OFFLINE="true")
    r = subprocess.run(["cargo", "+nightly", "test", "--doc", "--offline"], cwd=wdir, env=env,
                       stdout=subprocess.PIPE, stderr=subprocess.STDOUT, text=True)
    res = {}
    for m in re.finditer(r"^test src/lib\.rs - (\w+) \(line \d+\) - (compile fail|compile) \.\.\. (\w+)", r.stdout, re.M):
        res.setdefault(m.group(1), []).append((m.group(2), m.group(3)))
    out = {"ran": len(res), "raw_ok": "test result: ok" in r.stdout}
    for name, rule in WITNESSES[pid]:
        got = res.get(name)
        if not got:
            rep.unresolved(rule, "witness:%s" % name, "the witness did not run (doc-test output not found): %s" % r.stdout[-400:])
            continue
        bad = [k for k, v in got if v != "ok"]
        if bad:
            what = "the forbidden program now COMPILES" if "compile fail" in bad else "the compiling twin no longer compiles (the witness would pass vacuously)"
            rep.violation(rule, "witness:%s" % name, "compile-fail witness %s" % name, "%s (see /verif/witness/src/lib.rs)" % what)
        else:
            rep.ok(rule, "witness %s" % name, ", ".join("%s: %s" % kv for kv in got), nontrivial=True)
    return out
