"""C07 -- reads are independent of cache limits and background-worker progress.
R07.1 guarded eviction (=R15.6); R07.2 the boundary moves only after the older files are synced, and the setter assigns
unconditionally; R07.3 boundary provenance; R07.4 a bound taken from the non-monotone `last` must be lowered with it;
R07.5 a cache miss goes to disk, identically in both readers; R07.6 shared chunk files are read positionally only;
R07.7 readers take &self, writers &mut self."""
import re

from engine import (cmatch, cpath, expr_s, norm_learn, run_monitor, path_to, describe_path, strip_ids, OKV, ERRV, contains, finals)
from helpers import *
import c04
import c09
import c15

READ_CL = r"RaftLog::<T>::read::\{closure#\d+\}$"
DUMP_NEXT = r"DumpRaftLogIter<'_, T> as std::iter::Iterator>::next$"
CURSOR_RX = (r"io::Read::(read|read_exact|read_to_end|read_to_string|read_buf|read_vectored)$|io::BufReader::<R>::(new|with_capacity)$|"
             r"io::Seek::(seek|rewind|stream_position)$|io::BufRead::")
PREAD_RX = r"FileExt>?::(read_exact_at|read_at)$"


def assigns_field(g, n, name):
    """assignments performed by block n whose target is a field called `name` - written as `x.name = v` or through a `&mut` to it
    (`*p = v` in a helper that received `&mut x.name`)"""
    out = []
    for si, s in enumerate(g.stmts(n)):
        if s["k"] == "assign" and s["p"]["proj"]:
            fl = [el for el in s["p"]["proj"] if isinstance(el, dict) and "f" in el]
            if fl and fl[-1].get("n") == name:
                out.append((si, s))
            elif not fl and s["p"]["proj"] == ["deref"]:
                pe = strip_ids(g.prov_place(g.inst(n), s["p"]))
                if is_field(pe, name):
                    out.append((si, s))
    return out


def reader_rules(ctx, rep, key, name):
    g = ctx.graph(key)
    P = ctx.product(key)
    gets = P.calls(r"BTreeMap::<K, V, A>::get$")
    cache_get = [n for n in gets if has_field(strip_ids(event_args(g, n)[0]), "cache")]
    if not rep.expect("R07.5", "%s: cache lookup" % name, len(cache_get) == 1, "expected one cache lookup, found %d" % len(cache_get)):
        return None
    cg = cache_get[0]
    k = strip_ids(event_args(g, cg)[1])
    if not rep.expect("R07.5", "%s: cache key" % name, is_field(k, "log_id"), "cache lookup key is %s" % expr_s(k)[:60], where=g.where(cg)):
        return None
    ENTRY = k[1]
    chunk_get = [n for n in gets if n != cg]
    ok = True
    if not rep.expect("R07.5", "%s: chunk lookup" % name, len(chunk_get) == 1, "expected one closed-chunk lookup on the miss path, found %d" % len(chunk_get)):
        return None
    hg = chunk_get[0]
    hk = strip_ids(event_args(g, hg)[1])
    hmap = strip_ids(event_args(g, hg)[0])
    if hk == ("field", ENTRY, "chunk_id"):
        rep.ok("R07.5", "%s: miss -> lookup of the entry's chunk" % name, "%s.get(entry.chunk_id)" % expr_s(hmap)[-30:], where=g.where(hg))
    else:
        ok = False
        rep.violation("R07.5", "%s|chunk-lookup-key:%s" % (name, expr_s(hk)[:50]), "%s: chunk lookup" % name,
                      "the chunk is looked up by %s, not by the entry's chunk_id" % expr_s(hk)[:80], where=g.where(hg))
    preads = P.calls(PREAD_RX)
    if not rep.expect("R07.5", "%s: positional read" % name, len(preads) == 1, "expected one positional read on the miss path, found %d" % len(preads)):
        return None
    pr = preads[0]
    a = [strip_ids(x) for x in event_args(g, pr)]
    chunk = None
    # receiver: <looked-up chunk>.chunk.f
    rcv_ok = is_field(a[0], "f") and is_field(a[0][1], "chunk") and contains(a[0], lambda x: call_is(x, r"BTreeMap::<K, V, A>::get$") and call_arg(x, 0) == hmap)
    if rcv_ok:
        chunk = a[0][1]
    buf_ok = call_is(a[1], r"vec::from_elem$") and contains(a[1], lambda x: call_is(x, r"Span>?::size$") and call_arg(x, 0) == ("field", ENTRY, "record_segment"))
    off = a[2]
    off_e = off[1] if (off[0] == "field" and off[1][0] == "binop") else off
    off_ok = off_e[0] == "binop" and off_e[1].startswith("Sub") and \
        contains(off_e[2], lambda x: call_is(x, r"Span>?::offset$") and call_arg(x, 0) == ("field", ENTRY, "record_segment")) and \
        chunk is not None and is_index(off_e[3], lambda b: b == ("field", chunk, "global_offsets"), 0)
    if rcv_ok and buf_ok and off_ok:
        rep.ok("R07.5", "%s: read_exact_at" % name, "file of the looked-up chunk, entry.record_segment.size bytes at segment.offset - chunk start",
               where=g.where(pr))
    else:
        ok = False
        rep.violation("R07.5", "%s|pread-args:%s%s%s" % (name, "" if rcv_ok else "file,", "" if buf_ok else "size,", "" if off_ok else "offset"),
                      "%s: read_exact_at" % name,
                      "the disk read of a cache miss does not address the entry's record: file ok=%s, size ok=%s, offset ok=%s (%s)" %
                      (rcv_ok, buf_ok, off_ok, expr_s(off)[:80]), where=g.where(pr))
    decs = inlined_calls(g, c09.DECODE_KEY, P.live)
    if rep.expect("R07.5", "%s: decode of the bytes read" % name, len(decs) == 1):
        da = strip_ids(event_args(g, decs[0])[0])
        if contains(da, lambda x: x == a[1]) or contains_src(g, event_args(g, decs[0])[0], lambda x: x == a[1]):
            rep.ok("R07.5", "%s: decode(buffer read)" % name, "", where=g.where(decs[0]), nontrivial=False)
        else:
            ok = False
            rep.violation("R07.5", "%s|decode-other-buffer" % name, "%s: decode" % name, "the decoded bytes are not the bytes just read", where=g.where(decs[0]))
    # every failure of lookup / read / decode yields Err (never swallowed), and the entry yields its own log id
    steps = [hg, pr] + decs
    outs = {}
    for n in steps:
        outs[n] = call_outcome(P, n)
    # ok_or_else converts the None of get() into Err
    ooe = [n for n in P.calls(r"Option::<T>::ok_or_else$|Option::<T>::ok_or$") if contains(strip_ids(event_args(g, n)[0]), lambda x: call_is(x, r"BTreeMap::<K, V, A>::get$") and call_arg(x, 0) == hmap)]
    for n in ooe:
        outs[n] = call_outcome(P, n)

    def step(ms, pi, qi, learn):
        for n, f in outs.items():
            if f(pi, qi, learn) == "err":
                ms = True
        return ms
    seen = run_monitor(P, False, step)
    bad = None
    for (pi, ms0, ms) in finals(P, seen, step):
        if ms and P.gnode(pi) in g.exits:
            t0 = P.tags_after_block(pi)
            tag = t0.get((0, 0, ()))
            inner = t0.get((0, 0, ("0",)))
            is_err = (tag and tag[0] in ("Err",)) or (inner and inner[0] == "Err")
            if not is_err:
                bad = (pi, ms0)
    if bad:
        ok = False
        rep.violation("R07.5", "%s|miss-error-swallowed" % name, "%s: yielded item" % name,
                      "after the chunk lookup / disk read / decode failed, the reader can still yield a non-Err item", where=g.where(P.gnode(bad[0])),
                      path=describe_path(P, [k_[0] for k_ in path_to(seen, bad)]))
    else:
        rep.ok("R07.5", "%s: errors on the miss path are yielded" % name, "", where=g.where(g.entry))
    return {"entry": ENTRY, "ok": ok, "seq": ["cache.get(entry.log_id)", "chunks.get(entry.chunk_id)", "read_exact_at(chunk.f, size, off-start)", "decode", "Append?"]}


SHARED_MUT_RX = r"\b(RwLock|Mutex|RefCell|Cell|UnsafeCell|OnceCell|OnceLock|Atomic\w+|Condvar|mpsc::\w+)\b"


def r07_9(ctx, rep):
    """R07.9: the snapshot handed out by dump_data is frozen: its type owns no shared-mutable handle through which the live store could change
    what the snapshot later yields (type-structure walk over the crate's ADT field types)."""
    rep.rule("R07.9", "the value returned by RaftLog::dump_data owns its data: walking its field types through every crate-local struct/enum finds "
                      "no lock, cell, atomic or channel (a handle shared with the live store would let later evictions/writes change or "
                      "break what the snapshot iterator yields)")
    key = ctx.body_key(r"RaftLog::<T>::dump_data$")
    b = ctx.facts.bodies[key]
    ret = b.get("ret_ty", "")
    adts = ctx.facts.adts
    roots = [p for p in adts if re.search(r"(^|[^\w:])%s\b" % re.escape(p), ret) or ret.startswith(p)]
    if not rep.expect("R07.9", "dump_data return type is a crate-local ADT", len(roots) >= 1, "return type %s" % ret):
        return
    seen, bad, n_fields = set(), [], 0
    work = [(r, r.split("::")[-1]) for r in roots]
    if re.search(SHARED_MUT_RX, ret):
        bad.append(("<return type>", ret))
    while work:
        p, trail = work.pop()
        if p in seen:
            continue
        seen.add(p)
        for v in adts[p]["variants"]:
            for f in v["fields"]:
                n_fields += 1
                ty = f["ty"]
                here = "%s.%s" % (trail, f["name"])
                m = re.search(SHARED_MUT_RX, ty)
                if m:
                    bad.append((here, ty))
                for q in adts:
                    if q not in seen and re.search(r"(^|[^\w:])%s\b" % re.escape(q), ty):
                        work.append((q, here))
    for here, ty in bad:
        rep.violation("R07.9", "dump_data|shared-mutable:%s" % here, "snapshot field %s" % here,
                      "the snapshot holds `%s`: state shared with the live store, so entries that were readable when the snapshot was taken can "
                      "later be evicted/changed under it (a cache miss on an entry of the then-open chunk cannot be served from the snapshot's "
                      "frozen chunk list)" % ty[:120], where="%s:%s" % (adts[roots[0]]["file"], adts[roots[0]]["line"]))
    if not bad:
        rep.ok("R07.9", "dump_data -> %s" % roots[0].split("::")[-1], "%d ADTs / %d fields walked, no shared-mutable handle" % (len(seen), n_fields),
               where="%s:%s" % (adts[roots[0]]["file"], adts[roots[0]]["line"]))
    rep.floor("R07.9", "fields walked", n_fields, 10)


BLOCKING_RX = (r"mpsc::(Sync)?Sender::<T>::send$|mpsc::Receiver::<T>::(recv|recv_timeout|iter)$|mpsc::Iter|thread::sleep$|thread::park|"
               r"JoinHandle::<T>::join$|Condvar::wait|Barrier::wait|Callback::send$")
LOCK_ACQ_RX = r"sync::(poison::)?(rwlock::)?RwLock::<T>::(write|read)$|sync::(poison::)?(mutex::)?Mutex::<T>::lock$"
GUARD_TY = r"RwLockWriteGuard|RwLockReadGuard|MutexGuard"


def r07_10(ctx, rep):
    """R07.10 lock discipline: while a guard of the payload-cache lock is alive, a thread neither takes a lock again nor blocks on the other
    thread (channel send/recv, sleep, join, user callback).  The cache lock is shared by every reader, every writer and the worker; std's
    RwLock deadlocks on a re-entrant acquisition (read-read too, once a writer queues), and a thread that waits for the other one while holding
    it closes a cycle with that thread's own acquisition.  Either way reads stop completing - dependent on worker progress, which C07 excludes."""
    rep.rule("R07.10", "while a lock guard (payload cache) is alive no thread takes a lock again or waits for the other thread: no nested "
                       "RwLock/Mutex acquisition, no channel send/recv, sleep, join or user callback between the acquisition and the drop of the "
                       "guard, in any public operation, in open and in the worker (a cycle caller<->worker through the lock and the bounded "
                       "channel, or a re-entrant read() behind a queued writer, makes reads hang)")
    import c16
    keys = [k for (k, _a) in c16.entries(ctx)]
    keys.append(ctx.body_key(r"raft_log::RaftLog::<T>::open$"))
    keys += ctx.body_key(DUMP_NEXT, unique=False)
    wk, _, _ = ctx.worker_entry()
    keys.append(wk)
    n_acq = n_under = 0
    bad = {}
    for key in keys:
        g = ctx.graph(key)
        P = ctx.product(key)
        locks = set(P.calls(LOCK_ACQ_RX))
        if not locks:
            continue
        n_acq += len(locks)
        name = "worker" if key == wk else ("read-closure" if re.search(READ_CL, key) else ("dump-iter" if re.search(DUMP_NEXT, key) else short_key(key).split("::")[-1]))

        def is_guard_drop(n, g=g):
            t = g.term(n)
            if t["k"] == "drop" and re.search(GUARD_TY, t.get("ty", "") or ""):
                return True
            if t["k"] == "call" and n not in g.callee_inst and cmatch(t, r"mem::drop$") and re.search(GUARD_TY, str(t["callee"].get("gargs", ""))):
                return True
            return False

        def step(ms, pi, qi, learn, P=P, locks=locks, is_guard_drop=is_guard_drop):
            n = P.gnode(pi)
            if n in locks:
                return ms + 1 if ms < 3 else ms
            if is_guard_drop(n):
                return max(0, ms - 1)
            return ms
        seen = run_monitor(P, 0, step)
        for (pi, ms) in seen:
            n = P.gnode(pi)
            if ms <= 0:
                continue
            t = g.term(n)
            if n in locks:
                ev = "nested-lock:" + cpath(t).split("::")[-1]
            elif t["k"] == "call" and n not in g.callee_inst and cmatch(t, BLOCKING_RX) and not t.get("exp"):
                ev = cpath(t).split("::")[-2].split("<")[0] + "::" + cpath(t).split("::")[-1]
            else:
                n_under += 1
                continue
            k = "%s|%s-under-lock" % (name, ev)
            if k not in bad:
                bad[k] = (g, n, ev, name, describe_path(P, [k_[0] for k_ in path_to(seen, (pi, ms))]))
    for k, (g, n, ev, name, path) in sorted(bad.items()):
        rep.violation("R07.10", k, "%s: %s while a lock guard is alive" % (name, ev),
                      "%s reaches `%s` between acquiring and dropping a lock guard: a re-entrant acquisition deadlocks std's RwLock as soon as a "
                      "writer (the worker's boundary update / an append) queues in between, and waiting for the other thread while holding the "
                      "cache lock closes a cycle with that thread's own acquisition - reads then hang on worker progress" % (name, ev),
                      where=g.where(n), path=path)
    if not bad:
        rep.ok("R07.10", "lock regions of %d entries" % len(keys), "%d acquisition site(s); %d product state(s) under a guard, none blocks or re-acquires" % (n_acq, n_under))
    rep.floor("R07.10", "lock acquisitions examined", n_acq, 8)


def run(ctx, rep):
    rep.rule("R07.1", "= R15.6: every eviction is preceded by `first key <= last_evictable`")
    rep.rule("R07.2", "in the worker the eviction boundary is written only when no older file is left unsynced (len<=1 established, no push since), "
                      "with the newest entry's prev_last_log_id; the boundary setter assigns its argument on every path")
    rep.rule("R07.3", "boundary provenance: FileEntry.prev_last_log_id is the stored state's `last` at the chunk boundary; in open the boundary is "
                      "written in every chunk iteration before that chunk's records are applied")
    rep.rule("R07.4", "the boundary derives from RaftLogState.last, which a truncation lowers: an operation that lowers `last` must also lower the boundary")
    rep.rule("R07.5", "a cache miss goes to disk: lookup of the entry's chunk, read_exact_at(segment.offset - chunk start, segment.size), decode, "
                      "Append test; failures are yielded; both readers (read, DumpRaftLogIter) follow the same template")
    rep.rule("R07.6", "files shared with the worker / other readers are read positionally only; cursor readers exist only over a descriptor opened in the same cone")
    rep.rule("R07.7", "read/stat/dump_data take &self, every writer takes &mut self")

    # ---------------- R07.1 -------------------------------------------------------------
    ms_ = c15.cache_methods(ctx)
    ins = [k for k in ms_ if re.search(r"::insert$", k)]
    drn = [k for k in ms_ if re.search(r"::drain_evictable$", k)]
    if rep.expect("R07.1", "PayloadCache::insert / drain_evictable", len(ins) == 1 and len(drn) == 1):
        from c03 import _Filter
        sub = _Filter(rep, keep=("R15.6",), rename="R07.1/")
        c15.eviction_tables(ctx, sub, ins[0], True)
        c15.eviction_tables(ctx, sub, drn[0], False)

    # ---------------- R07.2 -------------------------------------------------------------
    wk, _, _ = ctx.worker_entry()
    g = ctx.graph(wk)
    P = ctx.product(wk)
    writes = [n for n in P.live if assigns_field(g, n, "last_evictable")]
    rep.floor("R07.2", "writes of last_evictable in the worker", len(writes), 1)
    push_set = {n for n in P.calls(r"Vec::<T, A>::push$") if c04.FILES(event_args(g, n)[0])}
    mut_set = {n for n in P.calls(None) if event_args(g, n) and c04.FILES(event_args(g, n)[0]) and mut_first_arg(g, n)}

    def step(ms, pi, qi, learn):
        le1 = ms
        n = P.gnode(pi)
        if n in mut_set and not cmatch(g.term(n), r"IndexMut<I>>::index_mut$|slice::<impl \[T\]>::(first_mut|last_mut|get_mut|iter_mut)$|ops::DerefMut>?::deref_mut$|Vec::<T, A>::(as_mut_slice|iter_mut)$"):
            le1 = False
        for o, v in norm_learn(learn):
            if c04.len_gt1_contradiction(g, o, v, le1):
                return None
            if c04.len_le1_fact(g, o, v) or c04.files_empty_fact(g, origin_call(o), v):
                le1 = True
        return le1
    seen = run_monitor(P, False, step)
    for n in writes:
        bad = next(((pi, ms) for (pi, ms) in seen if P.gnode(pi) == n and not ms), None)
        for si, s in assigns_field(g, n, "last_evictable"):
            v = strip_ids(g.prov_rvalue(g.inst(n), s["rv"], None))
            v_ok = is_field(v, "prev_last_log_id") and (is_index(v[1], c04.FILES, 0) or c04._is_first(v[1]))
            if bad:
                rep.violation("R07.2", "worker|boundary-before-older-files-synced", "last_evictable :=",
                              "the eviction boundary can be advanced while an older chunk file is still listed as unsynced: payloads whose only "
                              "copy is in an unwritten/unsynced closed chunk become evictable", where=g.where(n, si),
                              path=describe_path(P, [k[0] for k in path_to(seen, bad)]))
            elif not v_ok:
                rep.violation("R07.2", "worker|boundary-value:%s" % expr_s(v)[:50], "last_evictable :=",
                              "the boundary installed by the worker is not the newest file entry's prev_last_log_id: %s" % expr_s(v)[:80],
                              where=g.where(n, si))
            else:
                rep.ok("R07.2", "worker: last_evictable := files[0].prev_last_log_id", "only when no older file is listed (len <= 1 established)",
                       where=g.where(n, si))
    # (c) the boundary follows every chunk switch: once the worker has pushed a new file and completed a sync of it (all older files synced
    #     and dropped), it has written the boundary again before it waits for the next request - on EVERY such path (a `only if it grows`
    #     guard keeps a stale, too high boundary after a truncation lowered `last` between two rotations)
    wset_ = set(writes)
    sync_set = set(g.call_nodes(c04.SYNC_RX))
    def blocking_recv(n):
        t = g.term(n)
        if cmatch(t, r"mpsc::Receiver::<T>::(recv|recv_timeout)$"):
            return True
        if cmatch(t, r"iter::Iterator>?::next$"):
            a = event_args(g, n)
            return bool(a) and contains(strip_ids(a[0]), lambda x: call_is(x, r"mpsc::Receiver::<T>::(iter|into_iter)$|IntoIterator>?::into_iter$") and
                                        contains(x, lambda y: is_field(y, "rx")))
        return False
    recvs = {n for n in P.calls(None) if blocking_recv(n)}
    rep.floor("R07.2", "blocking recv events in the worker", len(recvs), 1)

    def step_c(ms, pi, qi, learn):
        synced, fresh, le1 = ms
        n = P.gnode(pi)
        if n in push_set:
            synced, fresh = False, False
        if n in mut_set and not cmatch(g.term(n), r"IndexMut<I>>::index_mut$|slice::<impl \[T\]>::(first_mut|last_mut|get_mut|iter_mut)$|ops::DerefMut>?::deref_mut$|Vec::<T, A>::(as_mut_slice|iter_mut)$"):
            le1 = False
        if n in wset_:
            fresh = True
        for o, v in norm_learn(learn):
            if c04.len_gt1_contradiction(g, o, v, le1):
                return None
            if c04.len_le1_fact(g, o, v):
                le1 = True
            cn = origin_call(o)
            if c04.files_empty_fact(g, cn, v):
                le1, synced, fresh = True, True, True        # no file is listed: there is no boundary to install
            if cn in sync_set and v in OKV and (c04.is_sync_of_last(g, cn) or (c04.is_sync_of_index(g, cn, 0) and le1)):
                synced = True
        return (synced, fresh, le1)
    seen_c = run_monitor(P, (True, True, False), step_c)
    bad_c = next(((pi, ms) for (pi, ms) in seen_c if P.gnode(pi) in recvs and ms[0] and not ms[1]), None)
    if bad_c:
        rep.violation("R07.2", "worker|chunk-switch-synced-without-installing-boundary", "worker: AppendFile ... sync Ok ... recv",
                      "after a new chunk file was appended and successfully synced, the worker can wait for its next request without having "
                      "written the eviction boundary of that file: the boundary of an EARLIER chunk stays in force, and when `last` was lowered "
                      "by a truncation in between it is too high - entries of the open chunk become evictable and read() fails with 'Chunk not found'",
                      where=g.where(P.gnode(bad_c[0])), path=describe_path(P, [k[0] for k in path_to(seen_c, bad_c)]))
    else:
        rep.ok("R07.2", "worker: every completed sync of a newly appended file is followed by a boundary write before the next recv",
               "%d product states" % len(seen_c), where=g.where(sorted(recvs)[0]) if recvs else "")
    # the setter(s): every &mut method of PayloadCache that assigns last_evictable assigns its argument on every path
    setters = 0
    for key in ms_:
        gs = ctx.graph(key)
        Ps = ctx.product(key)
        ws = [n for n in Ps.live if assigns_field(gs, n, "last_evictable")]
        if not ws:
            continue
        setters += 1
        wset = set(ws)

        def step2(ms, pi, qi, learn, wset=wset):
            return ms or (Ps.gnode(pi) in wset)
        seen2 = run_monitor(Ps, False, step2)
        bad = None
        for (pi, ms0, ms) in finals(Ps, seen2, step2):
            if Ps.gnode(pi) in gs.exits and not ms:
                bad = (pi, ms0)
        vals = [strip_ids(gs.prov_rvalue(gs.inst(n), s["rv"], None)) for n in ws for si, s in assigns_field(gs, n, "last_evictable")]
        nm = short_key(key).split("::")[-1]
        if bad:
            rep.violation("R07.2", "%s|boundary-setter-conditional" % nm, "PayloadCache::%s" % nm,
                          "the boundary setter can return without assigning: a caller that must LOWER the boundary (after a truncation the next "
                          "chunk closes with a smaller `last`) is ignored and live open-chunk entries stay evictable", where=gs.where(gs.entry),
                          path=describe_path(Ps, [k[0] for k in path_to(seen2, bad)]))
        elif not all(v == ("arg", 2) for v in vals):
            rep.violation("R07.2", "%s|boundary-setter-value" % nm, "PayloadCache::%s" % nm,
                          "the setter stores %s, not its argument" % [expr_s(v)[:40] for v in vals], where=gs.where(gs.entry))
        else:
            rep.ok("R07.2", "PayloadCache::%s" % nm, "assigns last_evictable := argument on every path", where=gs.where(gs.entry))
    rep.floor("R07.2", "boundary setters", setters, 1)

    # ---------------- R07.8 -------------------------------------------------------------
    rep.rule("R07.8", "= C04's R04.3/R04.8: FlushWorker.files stays in chunk order (push at the back, remove(0) after its sync) and writes go to "
                      "files.last(): the boundary `files[0].prev_last_log_id` and the place of every byte depend on that order")
    from c03 import _Filter as _F
    c04.run(ctx, _F(rep, keep=("R04.3", "R04.8"), rename="R07.8/"))

    # ---------------- R07.3 -------------------------------------------------------------
    fe = ctx.facts.adts.get("raft_log::wal::flush_worker::FileEntry")
    srcs = []
    if rep.expect("R07.3", "struct FileEntry", fe is not None):
        fnames = [f["name"] for f in fe["variants"][0]["fields"]]
        for ek in [ctx.body_key(WRITER_RX % "append"), ctx.body_key(r"RaftLog::<T>::open$")]:
            ge = ctx.graph(ek)
            Pe = ctx.product(ek)
            for n in Pe.live:
                for si, s in enumerate(ge.stmts(n)):
                    if s["k"] == "assign" and s["rv"]["k"] == "agg" and s["rv"].get("adt", "").endswith("flush_worker::FileEntry"):
                        f = dict(zip(s["rv"]["fnames"], s["rv"]["fields"]))
                        v = strip_ids(ge.prov_operand(ge.inst(n), f["prev_last_log_id"]))
                        srcs.append((short_key(ek).split("::")[-1], v, ge.where(n, si)))
        rep.floor("R07.3", "FileEntry constructions (rotation, start-up)", len(srcs), 2)
        for opn, v, where in srcs:
            # values computed through closures (`closed.iter().last().map(|c| c.state.clone()).and_then(|s| s.last().cloned())`)
            cl_rets = []
            for ek2 in [ctx.body_key(WRITER_RX % "append"), ctx.body_key(r"RaftLog::<T>::open$")]:
                g2 = ctx.graph(ek2)
                for n2, subs in g2.closure_insts.items():
                    for sub in subs:
                        if contains(v, lambda x: isinstance(x, tuple) and len(x) > 1 and x[0] == "closure" and x[1] == sub.key):
                            cl_rets.append(strip_ids(g2.prov_local(sub, 0)))
            via_closure = any(has_field(r, "last") for r in cl_rets) and (any(has_field(r, "state") for r in cl_rets) or has_field(v, "state"))
            if (has_field(v, "last") and (has_field(v, "log_state") or has_field(v, "state"))) or via_closure:
                rep.ok("R07.3", "%s: FileEntry.prev_last_log_id" % opn, "= %s" % expr_s(v)[:70], where=where)
            else:
                rep.violation("R07.3", "%s|prev_last_log_id-source:%s" % (opn, expr_s(v)[:40]), "FileEntry.prev_last_log_id",
                              "the boundary handed to the worker is not the stored state's `last` at the chunk boundary: %s" % expr_s(v)[:90], where=where)
    # open: boundary written in every chunk iteration before that chunk's records are applied
    M = c09.OpenModel(ctx)
    go, Po = M.g, M.P
    wo = {n for n in Po.live if assigns_field(go, n, "last_evictable")}
    cn_set = set(M.chunk_next)
    applies = set(M.applies)

    def step3(ms, pi, qi, learn):
        n = Po.gnode(pi)
        if n in wo:
            ms = True
        if M.new_chunk(pi, learn):
            ms = False
        return ms
    seen3 = run_monitor(Po, False, step3)
    bad = next(((pi, ms) for (pi, ms) in seen3 if Po.gnode(pi) in applies and not ms), None)
    if bad:
        rep.violation("R07.3", "open|apply-before-boundary", "replay",
                      "a chunk's records can be replayed into the cache before the boundary for that chunk was installed: entries of the newest "
                      "chunk may be evicted during replay", where=go.where(Po.gnode(bad[0])))
    else:
        rep.ok("R07.3", "open: boundary set per chunk before its records are applied", "", where=go.where(go.entry))
    for n in wo:
        inst = go.inst(n)
        # the value passed by open: a variable only ever assigned None or log_state.last (as of the end of the previous chunk)
        pcall = inst.parent.body["blocks"][inst.call_bb]["term"] if inst.parent else None
        if pcall and len(pcall["args"]) > 1:
            v = go.prov_operand(inst.parent, pcall["args"][1])
            vals = []
            # `x.take()` / mem::take(&mut x): the value handed over is whatever x held
            while isinstance(v, tuple) and v and v[0] == "call" and re.search(r"Option::<T>::take$|mem::take$", str(v[1])) and v[2]:
                v = v[2][0]
            ca = carried_assignments(go, Po.live, v)
            if ca is None:
                ca = carried_assignments(go, Po.live, strip_ids(v))
            if ca is not None:
                vals = ca
            else:
                vals = [strip_ids(v)]
            okv = vals and all((x[0] == "agg" and x[2] == "None") or is_field(x, "last") for x in vals)
            if okv:
                rep.ok("R07.3", "open: boundary value", "None or the state's `last` after the previous chunk", where=go.where(n))
            else:
                rep.violation("R07.3", "open|boundary-value", "open: boundary value",
                              "the boundary installed during replay is not the previous chunk's closing `last`: %s" % [expr_s(x)[:40] for x in vals],
                              where=go.where(n))

    # ---------------- R07.4 -------------------------------------------------------------
    # `last` is lowered by the TruncateAfter transition; the boundary's sources contain `last` (R07.3): the lowering op must rewrite the boundary
    key = ctx.body_key(WRITER_RX % "truncate")
    gt = ctx.graph(key)
    Pt = ctx.product(key)
    lowers = [n for n in Pt.live if any(has_field(strip_ids(gt.prov_place(gt.inst(n), s["p"])), "log_state") for si, s in assigns_field(gt, n, "last"))]
    bwrites = {n for n in Pt.live if assigns_field(gt, n, "last_evictable")}
    rep.floor("R07.4", "assignments of log_state.last in Op(truncate)", len(lowers), 1)
    if lowers:
        lset = set(lowers)

        def step4(ms, pi, qi, learn):
            lowered, rewritten = ms
            n = Pt.gnode(pi)
            if n in lset:
                lowered, rewritten = True, False
            if n in bwrites:
                rewritten = True
            return (lowered, rewritten)
        seen4 = run_monitor(Pt, (False, False), step4)
        bad = None
        for (pi, ms0, ms) in finals(Pt, seen4, step4):
            if Pt.gnode(pi) in gt.exits and not exit_is_err(Pt, pi) and ms[0] and not ms[1]:
                bad = (pi, ms0)
        if bad:
            rep.violation("R07.4", "truncate|eviction-bound-not-lowered-with-last", "Op(truncate)",
                          "truncate lowers RaftLogState.last but leaves the eviction boundary (a log id snapshot of an earlier, larger `last`) in "
                          "place, and the worker may later re-install such a stale snapshot: entries re-appended with a lower term compare <= the "
                          "boundary although they live only in the open chunk, get evicted, and read() fails with 'Chunk not found'",
                          where=gt.where(gt.entry))
        else:
            rep.ok("R07.4", "Op(truncate)", "the boundary is rewritten whenever `last` is lowered", where=gt.where(gt.entry))

    # ---------------- R07.5 -------------------------------------------------------------
    r1 = reader_rules(ctx, rep, ctx.body_key(READ_CL), "read")
    r2 = reader_rules(ctx, rep, ctx.body_key(DUMP_NEXT), "dump-iter")
    if r1 and r2:
        if r1["ok"] and r2["ok"]:
            rep.ok("R07.5", "sibling readers agree", "both follow: " + " -> ".join(r1["seq"]), nontrivial=True)
        else:
            rep.violation("R07.5", "readers-disagree", "read vs DumpRaftLogIter", "the two cache-miss readers do not follow the same template")

    # ---------------- R07.9 -------------------------------------------------------------
    r07_9(ctx, rep)
    r07_10(ctx, rep)

    # ---------------- R07.6 -------------------------------------------------------------
    shared_cones = [ctx.body_key(READ_CL), ctx.body_key(DUMP_NEXT), ctx.body_key(r"RaftLog::<T>::stat$"), ctx.body_key(r"RaftLog::<T>::dump_data$"), wk]
    n_pos = 0
    for key in shared_cones:
        gg = ctx.graph(key)
        PP = ctx.product(key)
        for n in PP.calls(CURSOR_RX):
            t = gg.term(n)
            if t.get("exp"):
                continue
            a = strip_ids(event_args(gg, n)[0]) if event_args(gg, n) else ()
            # reads from in-memory buffers (the record bytes already pread) are fine
            if contains(a, lambda x: call_is(x, r"vec::from_elem$|new_reader$")) and not has_field(a, "f"):
                continue
            rep.violation("R07.6", "%s|cursor-read:%s" % (short_key(key), cpath(t).split("::")[-1]), cpath(t),
                          "a file shared between threads is read through its cursor: concurrent readers (or the worker's appends) move the "
                          "position under each other", where=gg.where(n))
        n_pos += len(PP.calls(PREAD_RX))
    rep.floor("R07.6", "positional reads in the shared cones", n_pos, 2)
    # cursor readers only over a descriptor opened in the same cone
    n_cur = 0
    for b in ctx.facts.doc["bodies"]:
        pass
    for key in [ctx.body_key(r"RaftLog::<T>::open$"), ctx.body_key(r"dump::Dump<T> as raft_log::dump_api::DumpApi<T>>::write_with$"),
                ctx.body_key(r"dump::RefDump<'_, T> as raft_log::dump_api::DumpApi<T>>::write_with$")]:
        gg = ctx.graph(key)
        PP = ctx.product(key)
        for n in PP.calls(r"io::BufReader::<R>::(new|with_capacity)$"):
            n_cur += 1
            a = event_args(gg, n)
            f = strip_ids(a[-1])
            if contains_src(gg, a[-1], lambda x: call_is(x, r"fs::OpenOptions::open$|fs::File::open$")) and \
                    not contains_src(gg, a[-1], lambda x: call_is(x, r"fs::File::try_clone$") or (isinstance(x, tuple) and x and x[0] == "field" and x[2] == "f" and has_field(x, "chunk"))):
                rep.ok("R07.6", "%s: cursor reader" % short_key(key).split("::")[-1][:30], "over a descriptor opened in the same cone", where=gg.where(n))
            else:
                rep.violation("R07.6", "%s|cursor-reader-over-shared-file" % short_key(key), "BufReader",
                              "a sequential reader is built over a file that was not opened in this cone (a shared chunk file): %s" % expr_s(f)[:80],
                              where=gg.where(n))
    rep.floor("R07.6", "cursor reader constructions (open, Dump, RefDump)", n_cur, 3)
    rep.ok("R07.6", "shared cones", "no cursor read / seek on a shared chunk file in read, DumpRaftLogIter, stat, dump_data, worker", nontrivial=True) \
        if not any(o["rule"] == "R07.6" and o["status"] == "violation" for o in rep.obs) else None

    # ---------------- R07.7 -------------------------------------------------------------
    for nm, want in (("read", "&'a raft_log::raft_log::RaftLog<T>"), ("stat", "&'a raft_log::raft_log::RaftLog<T>"), ("dump_data", "&'a raft_log::raft_log::RaftLog<T>")):
        b = ctx.prog.bodies.get("raft_log::raft_log::RaftLog::<T>::%s" % nm)
        if rep.expect("R07.7", "RaftLog::%s" % nm, b is not None):
            if re.search(r"fn\(&'a raft_log::raft_log::RaftLog<T>", b["sig"]):
                rep.ok("R07.7", "RaftLog::%s takes &self" % nm, "", nontrivial=False)
            else:
                rep.violation("R07.7", "%s|not-&self" % nm, "RaftLog::%s" % nm, "a reader no longer takes a shared reference: %s" % b["sig"][:80])
    for key in ctx.write_entries():
        b = ctx.prog.bodies[key]
        if re.search(r"fn\(&'a mut raft_log::raft_log::RaftLog<T>", b["sig"]):
            rep.ok("R07.7", "%s takes &mut self" % short_key(key).split("::")[-1], "", nontrivial=False)
        else:
            rep.violation("R07.7", "%s|writer-not-&mut" % short_key(key).split("::")[-1], short_key(key), "a writer takes a shared reference: %s" % b["sig"][:80])
