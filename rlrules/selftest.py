"""E4: sensitivity / specificity self-test of the rules on scratch copies of /repo.

Mutants and benign edits are string replacements (file, old, new) kept in /verif/mutants/*.json.
Each is applied to a scratch copy made under tempfile.mkdtemp() (outside /repo and /verif), the
facts are extracted from that copy and the property's rules run on it:
    mutant  => at least one violation whose key matches `expect` (regex) must be reported
    benign  => no violation at all
A replacement whose `old` text no longer occurs exactly once is reported as skipped (source drift).
Nothing from /repo or the copy is executed.
"""
import json
import os
import re
import shutil
import subprocess
import sys
import tempfile
from concurrent.futures import ThreadPoolExecutor

VERIF = os.path.dirname(os.path.dirname(os.path.abspath(__file__)))


def load(prop=None):
    out = []
    d = os.path.join(VERIF, "mutants")
    for fn in sorted(os.listdir(d)):
        if not fn.endswith(".json"):
            continue
        with open(os.path.join(d, fn)) as f:
            for m in json.load(f):
                if prop is None or prop in m["props"]:
                    out.append(m)
    return out


def scratch(repo="/repo"):
    d = tempfile.mkdtemp(prefix="rlmut-")
    shutil.copytree(os.path.join(repo, "src"), os.path.join(d, "src"))
    for f in ("Cargo.toml", "Cargo.lock"):
        shutil.copy(os.path.join(repo, f), os.path.join(d, f))
    return d


def apply_edits(d, edits):
    for e in edits:
        p = os.path.join(d, e["file"])
        if not os.path.exists(p):
            return "file missing: " + e["file"]
        s = open(p).read()
        if s.count(e["old"]) != 1:
            return "old text occurs %d times in %s" % (s.count(e["old"]), e["file"])
        open(p, "w").write(s.replace(e["old"], e["new"]))
    return None


def apply_patch(d, patch):
    """a seeded change kept as a unified diff (/verif/seeded/<id>/patch.diff): only its src/ part is applied to the scratch copy"""
    p = patch if os.path.isabs(patch) else os.path.join(VERIF, patch)
    if not os.path.exists(p):
        return "patch missing: " + patch
    r = subprocess.run(["git", "apply", "--include=src/*", "--include=Cargo.toml", p], cwd=d, stdout=subprocess.PIPE, stderr=subprocess.STDOUT, text=True)
    if r.returncode != 0:
        return "patch does not apply: " + r.stdout[-300:]
    return None


def apply_sed(d, subs):
    """whole-tree identifier renames: [[regex, replacement], ...] applied to every .rs file under src/"""
    n = 0
    for root, _dirs, files in os.walk(os.path.join(d, "src")):
        for fn in files:
            if fn.endswith(".rs"):
                p = os.path.join(root, fn)
                s = open(p).read()
                t = s
                for rx, rep in subs:
                    t = re.sub(rx, rep, t)
                if t != s:
                    n += 1
                    open(p, "w").write(t)
    return None if n else "no file changed"


def run_one(m, prop, slot, repo="/repo"):
    d = scratch(repo)
    try:
        if m.get("patch"):
            err = apply_patch(d, m["patch"])
        elif m.get("sed"):
            err = apply_sed(d, m["sed"])
        else:
            err = apply_edits(d, m["edits"])
        if err:
            return {"id": m["id"], "prop": prop, "status": "skipped (source drift)", "detail": err}
        r = subprocess.run([os.path.join(VERIF, "check"), prop, "--repo", d, "--slot", slot, "--no-evidence"],
                           stdout=subprocess.PIPE, stderr=subprocess.STDOUT, text=True)
        keys = re.findall(r"^   key: (.*)$", r.stdout, re.M)
        out = {"id": m["id"], "prop": prop, "rc": r.returncode, "keys": keys}
        if "extraction failed" in r.stdout:
            out["status"] = "does-not-compile"
            out["detail"] = r.stdout[-1500:]
            return out
        if m.get("benign"):
            out["status"] = "ok" if r.returncode == 0 and not keys else "FALSE-ALARM"
        else:
            exp = m.get("expect", {}).get(prop) or m.get("expect", {}).get("*")
            hit = [k for k in keys if exp and re.search(exp, k)]
            out["status"] = "caught" if hit else ("caught-other-key" if keys else "MISSED")
            out["expected"] = exp
        if out["status"] not in ("ok", "caught"):
            out["detail"] = r.stdout[-3000:]
        return out
    finally:
        shutil.rmtree(d, ignore_errors=True)


def run_all(prop=None, ids=None, jobs=max(4, min(14, (os.cpu_count() or 8) - 2)), repo="/repo", stream=False):
    ms = load(prop)
    tasks = []
    for m in ms:
        if ids and m["id"] not in ids:
            continue
        for p in m["props"]:
            if prop is None or p == prop:
                tasks.append((m, p))
    results = []
    import queue
    slots = queue.Queue()
    for i in range(jobs):
        slots.put("%s%d" % (os.environ.get("SELFTEST_SLOT_PREFIX", "mut"), i))

    def job(m, p):
        sl = slots.get()
        try:
            return run_one(m, p, sl, repo)
        finally:
            slots.put(sl)
    with ThreadPoolExecutor(max_workers=jobs) as ex:
        futs = [ex.submit(job, m, p) for (m, p) in tasks]
        for f in futs:
            r = f.result()
            results.append(r)
            if stream:
                print("%-44s %-4s %-22s %s" % (r["id"], r["prop"], r["status"], ",".join(r.get("keys", []))[:150]), flush=True)
    return results


if __name__ == "__main__":
    prop = None
    ids = None
    args = sys.argv[1:]
    if args and re.match(r"^C\d+$", args[0]):
        prop = args[0]
        args = args[1:]
    if args:
        ids = set(args)
    res = run_all(prop, ids, stream=True, **({"jobs": int(os.environ["SELFTEST_JOBS"])} if os.environ.get("SELFTEST_JOBS") else {}))
    bad = 0
    print("---- failures ----", flush=True)
    for r in [x for x in res if x["status"] not in ("ok", "caught")]:
        print("%-44s %-4s %-22s %s" % (r["id"], r["prop"], r["status"], ",".join(r.get("keys", []))[:150]))
        if r["status"] in ("MISSED", "FALSE-ALARM", "does-not-compile", "caught-other-key"):
            bad += 1
            if r.get("detail"):
                print("    " + r["detail"].replace("\n", "\n    ")[-1500:])
    sys.exit(1 if bad else 0)
