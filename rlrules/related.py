"""Rules of other properties that are also necessary conditions of a property are evaluated under that property too
(filed as `<pid>+/<rule>`), so that a change is reported by the check of every property it breaks.
Rules that currently carry a known finding are imported only in the starred form `Rxx.y*`: violations whose key is a recorded known
finding are dropped (they are listed under their own property), anything else the rule reports is shown.
`Rxx.y~regex` imports only the sub-clause of the rule whose violation keys match the regex (e.g. C09 needs "nothing outside the worker
unlinks" but not the worker's own unlink order, which a change can break without breaking C09)."""
import importlib

from c03 import _Filter

# property -> list of (module, rules)
RELATED = {
    "C01": [("c06", ["R06.1"]), ("c11", ["R11.2"]), ("c12", ["R12.2", "R12.8", "R12.9"]), ("c07", ["R07.2", "R07.5~chunk-lookup-key|pread-args|decode-other-buffer|miss-error-swallowed|readers-disagree", "R07.6"]), ("c03", ["R03.1"])],
    "C02": [("c12", ["R12.1", "R12.2", "R12.4", "R12.7", "R12.8", "R12.9"]), ("c08", ["R08.1", "R08.4", "R08.5", "R08.6"]), ("c11", ["R11.1", "R11.2", "R11.7"]), ("c09", ["R09.1", "R09.2"]), ("c07", ["R07.2", "R07.3", "R07.6"]), ("c03", ["R03.1"]),
            ("lints", ["L.partial-write", "L.partial-read", "L.try-send"])],
    "C03": [("c08", ["R08.1", "R08.2", "R08.3"]), ("c09", ["R09.1", "R09.2", "R09.3", "R09.5"]), ("c11", ["R11.2"]), ("c12", ["R12.1", "R12.4", "R12.7", "R12.11"]),
            ("c04", ["R04.4", "R04.6", "R04.8", "R04.9", "R04.10"]), ("c14", ["R14.4"]), ("lints", ["L.partial-write", "L.partial-read", "L.try-send", "L.file-create-truncate"])],
    "C04": [("c08", ["R08.7"]), ("c03", ["R03.4"]), ("c14", ["R14.4"]), ("lints", ["L.partial-write", "L.try-send"])],
    "C05": [("c11", ["R11.8~truncate_incomplete_record"]), ("c04", ["R04.10"]), ("c10", ["R10.1", "R10.2", "R10.3", "R10.4", "R10.6", "R10.7"]), ("c09", ["R09.3", "R09.4", "R09.5"]), ("c12", ["R12.6", "R12.7", "R12.8", "R12.9"]), ("c08", ["R08.4"]), ("c11", ["R11.7"]),
            ("lints", ["L.partial-read", "L.process-exit"])],
    "C06": [("c15", ["R15.1"]), ("c01", ["R01.3", "R01.4", "R01.9"])],
    "C07": [("c11", ["R11.2"]), ("c01", ["R01.2", "R01.5"]), ("c02", ["R02.3"]), ("c12", ["R12.2", "R12.7"]), ("c03", ["R03.4"]),
            ("lints", ["L.try-lock", "L.partial-read", "L.partial-write"])],
    "C08": [("c04", ["R04.1", "R04.3"]), ("c03", ["R03.4"]), ("c14", ["R14.4"]), ("lints", ["L.try-send"])],
    "C09": [("c12", ["R12.1", "R12.3", "R12.6", "R12.7", "R12.8", "R12.9"]), ("c10", ["R10.6", "R10.8"]), ("c05", ["R05.1*"]), ("c08", ["R08.1~outside-worker"]), ("c03", ["R03.3"]), ("lints", ["L.partial-read"])],
    "C10": [("c11", ["R11.8~truncate_incomplete_record"]), ("c09", ["R09.1", "R09.5"]), ("c12", ["R12.7", "R12.8", "R12.9"]), ("c05", ["R05.3"]), ("lints", ["L.partial-read"])],
    "C11": [("c12", ["R12.4", "R12.11"]), ("c08", ["R08.1", "R08.4", "R08.5", "R08.6"]), ("c02", ["R02.4"]), ("c07", ["R07.6"]), ("c03", ["R03.1"]), ("lints", ["L.partial-write", "L.file-create-truncate"])],
    "C12": [("c03", ["R03.3"]), ("lints", ["L.partial-read"])],
    "C13": [],
    "C14": [("c13", ["R13.2", "R13.6", "R13.7"]), ("c04", ["R04.7", "R04.9"]), ("c08", ["R08.2"])],
    "C15": [("c11", ["R11.8~log_cache"]), ("c07", ["R07.2"]), ("c08", ["R08.7"]), ("lints", ["L.try-lock"])],
    "C16": [("c12", ["R12.6"]), ("lints", ["L.process-exit"])],
}


def run(pid, ctx, rep):
    for modname, rules in RELATED.get(pid, []):
        mod = importlib.import_module(modname)
        if modname == "lints":
            mod.run(ctx, _Filter(rep, keep=tuple(rules), rename=pid + "+/"), rules)
        else:
            names = [r.split("~")[0].rstrip("*") for r in rules]
            key_rx = {r.split("~")[0].rstrip("*"): r.split("~", 1)[1] for r in rules if "~" in r}
            mod.run(ctx, _Filter(rep, keep=tuple(names), rename=pid + "+/", skip_known=any(r.split("~")[0].endswith("*") for r in rules), key_rx=key_rx))
