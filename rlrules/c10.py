"""C10 -- torn or zero-filled tail: exactly the longest complete prefix is recovered.
R10.1 both configuration rows of the tolerated-error table; R10.2 truncation length provenance; R10.3 end-of-file test of the
record iterator; R10.4 a truncated chunk is never reused for appends."""
import re

from engine import (cmatch, cpath, expr_s, norm_learn, run_monitor, path_to, describe_path, strip_ids, OKV, ERRV, contains, finals)
from helpers import *
import c09

MUTATE_FS = (r"fs::File::(set_len|sync_all|sync_data|create)$|fs::(remove_file|rename|write)$|io::Write::(write|write_all)$|"
             r"io::impls::<impl std::io::Write for .*>::(write|write_all)$|FileExt>?::(write_at|write_all_at)$")


def _enum_latch_clear_at(ctx, g, cn):
    """the latch is a private enum field of the iterator instead of an Option: in the product of the function that holds the decode, some
    field of `self` takes several variants, and every state at the decode has it in one and the same variant (the test went the 'clear' way)"""
    inst = g.inst(cn)
    top = inst
    while top.parent is not None and top.parent.id != 0 and not top.key.endswith("::next"):
        top = top.parent
    try:
        P2 = ctx.product(top.key)
    except Exception:
        return False
    g2 = P2.g
    decs = [n for n in inlined_calls(g2, c09.DECODE_KEY, P2.live)]
    if len(decs) != 1:
        return False
    seen_variants = {}
    for (_n, ft) in P2.nodes:
        for slot, (v, _o) in ft:
            if slot[0] == 0 and slot[1] == 1 and len(slot[2]) == 2 and slot[2][0] == "*":
                seen_variants.setdefault(slot, set()).add(v)
    at = [P2.tags(pi) for pi in P2.pnodes_of(decs)]
    if not at:
        return False
    for slot, vs in seen_variants.items():
        if len(vs) < 2:
            continue
        here = {t.get(slot, (None, None))[0] for t in at}
        if len(here) == 1 and None not in here:
            return True
    return False


def run(ctx, rep):
    rep.rule("R10.1", "with truncate_incomplete_record() false every decode error ends in an Err return of open, with no file-mutating "
                      "event (set_len, write, create_new, unlink, sync) after it; with it true the truncation obeys R09.3")
    rep.rule("R10.2", "the truncation length is (global offset after the last good record) - (chunk start): last element of the offset "
                      "vector that is pushed once per successfully decoded record with chunk_start + record end")
    rep.rule("R10.3", "a record is decoded only after `consumed offset == file size captured at iterator construction` was found false "
                      "(an exact boundary cut ends the chunk without error) and no earlier error is latched")
    rep.rule("R10.4", "the last recovered chunk is reused for appends only when its `truncated` mark is None; otherwise a new chunk starts "
                      "at the recovered end (R05.3)")
    M = c09.OpenModel(ctx)
    g, P = M.g, M.P
    fsm = set(P.calls(MUTATE_FS)) | {n for n in P.calls(r"fs::OpenOptions::open$")
                                     if creates_file(g, n, ("create", "create_new", "truncate"))
                                     and n[0] != 1}
    # lock-file open belongs to the lock constructor (before any chunk is read): exclude by requiring a pending error anyway

    # ---------------- R10.1 -------------------------------------------------------------
    def step(ms, pi, qi, learn):
        pend, dis, kind = ms          # kind of the pending error: 0 unknown, 1 UnexpectedEof, 2 known to be something else
        for f in M.dec_out:
            if f(pi, qi, learn) == "err":
                pend, dis, kind = True, False, 0
        for o, v in norm_learn(learn):
            fl = M.fact_flags(o, v)
            if "no_trunc" in fl:
                dis = True
            if "can_trunc" in fl:
                dis = False
            if "eof" in fl:
                if kind == 2:
                    return None      # the same error's kind answered differently before: infeasible
                kind = 1
            if "not-eof" in fl:
                if kind == 1:
                    return None
                kind = 2
        return (pend, dis, kind)
    seen = run_monitor(P, (False, False, 0), step)
    bad = next(((pi, ms) for (pi, ms) in seen if ms[0] and ms[1] and P.gnode(pi) in fsm), None)
    if bad:
        n = P.gnode(bad[0])
        rep.violation("R10.1", "open|file-mutated-with-truncation-disabled:%s" % cpath(g.term(n)).split("::")[-1], cpath(g.term(n)),
                      "with truncate_incomplete_record disabled, a file-mutating call is reachable after a record failed to decode: the "
                      "files are not left untouched", where=g.where(n), path=describe_path(P, [k[0] for k in path_to(seen, bad)]))
    else:
        rep.ok("R10.1", "truncation disabled: no file mutation after a decode error", "%d mutating sites examined" % len(fsm), where=g.where(g.entry))
    bad = None
    for (pi, ms0, ms) in finals(P, seen, step):
        if ms[0] and ms[1] and P.gnode(pi) in g.exits and not exit_is_err(P, pi):
            bad = (pi, ms0)
    if bad:
        rep.violation("R10.1", "open|ok-with-truncation-disabled", "Op(open) Ok return",
                      "open can succeed with an incomplete/zero tail although truncation is disabled", where=g.where(P.gnode(bad[0])),
                      path=describe_path(P, [k[0] for k in path_to(seen, bad)]))
    else:
        rep.ok("R10.1", "truncation disabled: open returns Err", "", where=g.where(g.entry))
    for n in M.set_len:
        if c09.setlen_untolerated(M, n) is None:
            rep.ok("R10.1", "truncation enabled: set_len only under the tolerated table", "shared with R09.3", where=g.where(n))
        else:
            rep.violation("R10.1", "open|set_len-outside-tolerated-table", "File::set_len",
                          "the tail truncation is reachable outside `enabled && (UnexpectedEof | zero tail)`", where=g.where(n))
    rep.floor("R10.1", "recovery set_len sites", len(M.set_len), 1)

    # ---------------- R10.7 -------------------------------------------------------------
    rep.rule("R10.7", "completeness of the tolerated-error table: once a decode error is known to be UnexpectedEof, or the tail has been read "
                      "up to EOF without a non-zero byte, open refuses (returns Err) only because truncation is disabled or because a later "
                      "I/O call failed - no other predicate (length of the tail, size of the record, position in the chunk) may turn a torn "
                      "or zero tail of the newest chunk into a refusal")
    dec_set = set(M.decodes)
    sl_set = set(M.set_len)

    def step7(ms, pi, qi, learn):
        pend, notr, eof, reached, nonzero, fresh = ms
        if P.gnode(pi) in sl_set:
            pend = False
        for f in M.dec_out:
            if f(pi, qi, learn) == "err":
                pend, notr, eof, reached, nonzero, fresh = True, False, False, False, False, False
        for o, v in norm_learn(learn):
            fl = M.fact_flags(o, v)
            if "no_trunc" in fl:
                notr = True
            if "eof" in fl:
                eof = True
            if "eof_reached" in fl:
                reached = True
            if "nonzero" in fl:
                nonzero = True
            cn = origin_call(o)
            if pend and cn is not None and v in ("Err", "Break") and cn not in dec_set and cn not in g.callee_inst:
                fresh = True
        return (pend, notr, eof, reached, nonzero, fresh)
    seen7 = run_monitor(P, (False, False, False, False, False, False), step7)
    bad7 = None
    n_err_exits = 0
    for (pi, ms0, ms) in finals(P, seen7, step7):
        if P.gnode(pi) in g.exits and ms[0] and exit_is_err(P, pi):
            n_err_exits += 1
            pend, notr, eof, reached, nonzero, fresh = ms
            if (eof or (reached and not nonzero)) and not notr and not fresh:
                bad7 = (pi, ms0, "UnexpectedEof" if eof else "zero tail")
    if bad7:
        rep.violation("R10.7", "open|tolerated-tail-refused:%s" % bad7[2], "Op(open) Err return after a tolerated decode error",
                      "open can return Err for a decode error already classified as %s although truncation was not found disabled and no "
                      "further I/O call failed: some additional condition refuses a torn/zero tail that must be recovered" % bad7[2],
                      where=g.where(P.gnode(bad7[0])), path=describe_path(P, [k[0] for k in path_to(seen7, (bad7[0], bad7[1]))]))
    else:
        rep.ok("R10.7", "refusals after a decode error", "%d Err-exit state(s) with a pending decode error; each has truncation disabled, a "
               "non-zero byte, an unclassified error or a failed I/O call" % n_err_exits, where=g.where(g.entry))
    rep.floor("R10.7", "Err exits of open with a pending decode error", n_err_exits, 3)

    # ---------------- R10.2 -------------------------------------------------------------
    for n in M.set_len:
        a = list(event_args(g, n))
        ln = a[1] if len(a) > 1 else None
        e = ln
        if isinstance(e, tuple) and e[0] == "field" and e[1][0] == "binop":
            e = e[1]
        ok = False
        V = None
        start = None
        if isinstance(e, tuple) and e[0] == "binop" and e[1].startswith("Sub"):
            x, start = e[2], e[3]
            if call_is(x, r"slice::<impl \[T\]>::last$|Vec::<T, A>::last$"):
                V = call_arg(x, 0)
                ok = True
        if not ok:
            rep.violation("R10.2", "open|truncation-length:%s" % expr_s(strip_ids(ln))[:60], "set_len length",
                          "the truncation length is not `last recorded offset - chunk start`: %s" % expr_s(strip_ids(ln))[:100], where=g.where(n))
            continue
        pushes = [m for m in P.calls(r"Vec::<T, A>::push$") if event_args(g, m)[0] == V]
        good = True
        for m in pushes:
            v = event_args(g, m)[1]
            vv = v[1] if (v[0] == "field" and v[1][0] == "binop") else v
            if not (vv[0] == "binop" and vv[1].startswith("Add") and contains(vv, lambda z: call_is(z, r"Span::end$"))
                    and (strip_ids(vv[2]) == strip_ids(start) or strip_ids(vv[3]) == strip_ids(start))):
                good = False
                rep.violation("R10.2", "open|offset-push-shape", "offset push",
                              "an offset pushed by the loader is not chunk_start + end of a decoded record: %s" % expr_s(v)[:90],
                              where=g.where(m))
        # one push per Ok item: the push is control dependent on the item being Ok
        if good and pushes:
            rep.ok("R10.2", "set_len length", "= last(offsets) - chunk_start; offsets pushed as chunk_start + record end (%d push site)" % len(pushes),
                   where=g.where(n))
        elif not pushes:
            rep.unresolved("R10.2", "offset-pushes", "no push onto the offset vector found", where=g.where(n))
        # the same vector becomes the chunk's global_offsets
        used = False
        for nn in P.live:
            for s in g.stmts(nn):
                if s["k"] == "assign" and s["rv"]["k"] == "agg" and s["rv"].get("adt") == "chunk::Chunk":
                    f = dict(zip(s["rv"]["fnames"], s["rv"]["fields"]))
                    if g.prov_operand(g.inst(nn), f["global_offsets"]) == V:
                        used = True
        if used:
            rep.ok("R10.2", "recovered chunk offsets", "the truncated length is the end of the chunk's own offset vector", where=g.where(n))
        else:
            rep.violation("R10.2", "open|truncate-vector-is-not-chunk-offsets", "recovered chunk",
                          "the vector that determines the truncation length is not the recovered chunk's offset vector", where=g.where(n))

    # ---------------- R10.3 -------------------------------------------------------------
    for cn in M.decodes:
        inst = g.inst(cn)
        entry = (inst.id, 0)

        def is_end_test(o, v):
            e = origin_stmt_expr(g, o)
            if e is None or e[0] != "binop" or e[1] not in ("Eq", "Ne", "Ge", "Lt"):
                return None

            def unc(x):
                while isinstance(x, tuple) and x and x[0] == "cast":
                    x = x[1]
                return x
            a, b = unc(strip_ids(e[2])), unc(strip_ids(e[3]))

            def is_size(x):
                if isinstance(x, tuple) and x and x[0] != "field" and contains(x, lambda z: call_is(z, r"fs::Metadata::len$")):
                    return True       # the captured size itself (a never-reassigned field resolves to the value it was built with)
                cv = ctor_value(ctx, x)
                return cv is not None and contains(cv, lambda z: call_is(z, r"fs::Metadata::len$")) \
                    and not field_assigned(g, P.live, x[2])

            def is_pos(x):
                return isinstance(x, tuple) and x and x[0] == "field" and not is_const(x) and not is_size(x)
            if not ((is_size(a) and is_pos(b)) or (is_size(b) and is_pos(a))):
                return None
            if e[1] == "Eq":
                return v == "true"
            if e[1] == "Ne":
                return v == "false"
            if e[1] == "Ge":
                return (v == "true") if is_pos(a) else None
            if e[1] == "Lt":
                return (v == "false") if is_pos(a) else None
            return None

        latch_tests = {n for n in P.calls(r"Option::<T>::(is_some|is_none)$") if n[0] == inst.id
                       and is_field(strip_ids(event_args(g, n)[0]), "error")}

        def step3(ms, pi, qi, learn, entry=entry):
            tested, latched_ok = ms
            if P.gnode(pi) == entry:
                tested, latched_ok = False, False
            if P.gnode(pi) in latch_tests:
                # the latch is consulted here; when the product has already proved it empty the `latched` branch is pruned and nothing is
                # learned on the remaining edge, so passing the test is the evidence - unless this edge learns that the latch is set
                latched_ok = True
                for o, v in norm_learn(learn):
                    c = origin_call(o)
                    if c == P.gnode(pi):
                        nm = cpath(g.term(c)).split("::")[-1]
                        if (nm == "is_some" and v == "true") or (nm == "is_none" and v == "false"):
                            latched_ok = False
                    pe = origin_place_expr(g, o)
                    if pe is not None and is_field(strip_ids(pe), "error") and v == "Some":
                        latched_ok = False
            for o, v in norm_learn(learn):
                r = is_end_test(o, v)
                if r is False:
                    tested = True
                c = origin_call(o)
                pe = origin_place_expr(g, o)
                if c is not None and cmatch(g.term(c), r"Option::<T>::is_some$") and is_field(strip_ids(event_args(g, c)[0]), "error") and v == "false":
                    latched_ok = True
                if c is not None and cmatch(g.term(c), r"Option::<T>::is_none$") and is_field(strip_ids(event_args(g, c)[0]), "error") and v == "true":
                    latched_ok = True
                if pe is not None and is_field(strip_ids(pe), "error") and v == "None":
                    latched_ok = True
            return (tested, latched_ok)
        seen3 = run_monitor(P, (False, False), step3)
        b1 = next(((pi, ms) for (pi, ms) in seen3 if P.gnode(pi) == cn and not ms[0]), None)
        b2 = next(((pi, ms) for (pi, ms) in seen3 if P.gnode(pi) == cn and not ms[1]), None)
        if b1:
            rep.violation("R10.3", "open|decode-without-eof-test", "record iterator",
                          "a record is decoded without first establishing that the consumed offset differs from the file size: a chunk cut "
                          "exactly at a record boundary yields a spurious error instead of a clean end", where=g.where(cn),
                          path=describe_path(P, [k[0] for k in path_to(seen3, b1)]))
        else:
            rep.ok("R10.3", "decode only after offset != file size", "", where=g.where(cn))
        if b2 and _enum_latch_clear_at(ctx, g, cn):
            b2 = None
        if b2:
            rep.violation("R10.3", "open|decode-after-latched-error", "record iterator",
                          "a record can be decoded although the iterator has already reported an error", where=g.where(cn))
        else:
            rep.ok("R10.3", "decode only while no error is latched", "", where=g.where(cn))

    # ---------------- R10.6 -------------------------------------------------------------
    rep.rule("R10.6", "between the decoder and the tolerated-error table an I/O error is never re-created with a fixed kind: "
                      "`io::Error::new(K, ..e..)` must use K = e.kind(), otherwise a torn tail (UnexpectedEof) is no longer recognisable")
    n_new = 0
    for n in P.calls(r"io::Error::new$|io::Error::other$"):
        inst = g.inst(n)
        # only constructions inside the record-loading path (decoder, record iterator, loader) matter
        a = [strip_ids(x) for x in event_args(g, n)]
        def is_err_src(y):
            """an error value: the Err payload of something, or the parameter of a closure that an error-side combinator runs"""
            if not (isinstance(y, tuple) and y):
                return False
            if y[0] == "errval":
                return True
            if y[0] == "cl_arg" and isinstance(y[1], int):
                ci = g.insts[y[1]]
                if ci.parent is not None and ci.call_bb is not None:
                    tt = g.term((ci.parent.id, ci.call_bb))
                    return tt["k"] == "call" and bool(re.search(r"result::Result::<T, E>::(map_err|inspect_err|or_else|unwrap_or_else)$|ErrorContextExt", tt["callee"]["path"]))
            return False
        derived = any(contains(x, lambda y: is_err_src(y) or (isinstance(y, tuple) and y and y[0] == "call"
                                                              and re.search(r"ToString>?::to_string$|fmt::format$", str(y[1]))
                                                              and contains(y, is_err_src)))
                      for x in a[1:]) if len(a) > 1 else (len(a) == 1 and contains(a[0], is_err_src))
        if not derived:
            continue
        n_new += 1
        in_decode_path = any(re.search(r"codeq::Decode>::decode|Iterator>::next", i_.key) for i_ in _ancestors(inst))
        if not in_decode_path:
            continue
        kind = a[0] if len(a) > 1 else None
        if kind is not None and call_is(kind, r"io::Error::kind$"):
            rep.ok("R10.6", "io::Error::new(e.kind(), ..)", "kind preserved", where=g.where(n), nontrivial=False)
        else:
            rep.violation("R10.6", "open|error-kind-rewritten:%s" % (expr_s(kind)[:40] if kind else "other"), "io::Error::new",
                          "an error raised while decoding is re-created with the fixed kind %s: a short read (UnexpectedEof) inside this field is "
                          "reported as another kind, so a torn tail there is treated as a damaged record and open fails instead of truncating"
                          % (expr_s(kind)[:40] if kind else "Other"), where=g.where(n))
    rep.floor("R10.6", "derived error constructions examined in Op(open)", n_new, 1)

    # ---------------- R10.5 -------------------------------------------------------------
    r10_5(ctx, rep, M)

    # ---------------- R10.8 -------------------------------------------------------------
    rep.rule("R10.8", "the buffer of the tail scan's positional read cannot be empty: it is created with a positive constant length (a read into "
                      "an empty buffer returns 0, which the scan takes for end of file - every damaged record would then look like a zero tail "
                      "and be cut off)")
    n_scan = 0
    for n in P.calls(r"FileExt>?::read_at$"):
        a = event_args(g, n)
        if len(a) < 2:
            continue
        n_scan += 1

        def positive_len(e):
            e = strip_ids(e)
            def pos_const(c):
                if not is_const(c):
                    return False
                try:
                    return int(c[1]) > 0
                except (TypeError, ValueError):
                    return True          # a named constant the fact extractor did not evaluate: a compile-time value, not an input
            if contains(e, lambda x: call_is(x, r"vec::from_elem$") and len(x[2]) > 1 and pos_const(x[2][1])):
                return True
            if contains(e, lambda x: isinstance(x, tuple) and x and x[0] == "repeat"):
                return True      # a fixed-size array
            return False
        srcs = value_sources(g, a[1])
        if srcs and all(positive_len(x) for x in srcs):
            rep.ok("R10.8", "scan buffer", "created with a positive constant length", where=g.where(n))
        else:
            rep.violation("R10.8", "open|scan-buffer-may-be-empty", "read_at buffer",
                          "the tail scan reads into a buffer whose length is not a positive constant (%s): with length 0 the first read returns 0, "
                          "the scan reports `all zeros up to end of file`, and a damaged complete record is truncated away instead of being "
                          "reported" % "; ".join(expr_s(strip_ids(x))[:60] for x in (srcs or [a[1]])), where=g.where(n))
    rep.floor("R10.8", "positional reads of the tail scan in Op(open)", n_scan, 1)

    # ---------------- R10.4 -------------------------------------------------------------
    is_closed_map = lambda e: call_is(e, r"BTreeMap::<K, V>::new$|BTreeMap::<K, V, A>::new$")
    pops = [n for n in P.calls(r"BTreeMap::<K, V, A>::(pop_last|remove)$") if is_closed_map(strip_ids(event_args(g, n)[0]))]
    # `closed.last_entry()...remove()`: the removal is the OccupiedEntry's, the entry comes from the closed map
    pops += [n for n in P.calls(r"btree_map::OccupiedEntry::<'a, K, V, A>::(remove|remove_entry)$|OccupiedEntry<.*>::(remove|remove_entry)$")
             if contains(strip_ids(event_args(g, n)[0]), lambda x: call_is(x, r"BTreeMap::<K, V, A>::last_entry$") and is_closed_map(call_arg(x, 0)))]
    rep.floor("R10.4", "reuse of the last recovered chunk (pop_last on the closed map in open)", len(pops), 1)

    def step4(ms, pi, qi, learn):
        for o, v in norm_learn(learn):
            c = origin_call(o)
            if c is not None and cmatch(g.term(c), r"Option::<T>::(is_some|is_none)$"):
                a = strip_ids(event_args(g, c)[0])
                if is_field(a, "truncated") and contains(a, lambda x: call_is(x, r"Iterator>?::last$|BTreeMap::<K, V, A>::(last_key_value|iter|last_entry)$")):
                    nm = cpath(g.term(c)).split("::")[-1]
                    if (nm, v) in (("is_some", "false"), ("is_none", "true")):
                        ms = True
            pe = origin_place_expr(g, o)
            if pe is not None and is_field(strip_ids(pe), "truncated") and v == "None":
                ms = True
        return ms
    seen4 = run_monitor(P, False, step4)
    for n in pops:
        bad = next(((pi, ms) for (pi, ms) in seen4 if P.gnode(pi) == n and not ms), None)
        if bad:
            rep.violation("R10.4", "open|truncated-chunk-reused", "reuse of last chunk",
                          "the last recovered chunk can be reopened for appends although it was truncated (its file may still hold the cut "
                          "bytes beyond the logical end / its size differs from its offsets)", where=g.where(n),
                          path=describe_path(P, [k[0] for k in path_to(seen4, bad)]))
        else:
            rep.ok("R10.4", "reuse of last chunk", "only on the `truncated is None` edge", where=g.where(n))


def r10_5(ctx, rep, M, rule="R10.5"):
    """the zero-tail scanner (the inlined function that issues the positional read of the tail) may answer 'not all zero' only after
    it has witnessed a non-zero byte (a u8 compared with 0): any other evidence (block compares of unequal length, size tests) makes a
    genuine zero-filled tail look damaged, and open then refuses a recoverable image"""
    rep.rule(rule, "the tail scan answers 'not zero' (Ok(false)) only on a witnessed `byte != 0`; it answers 'all zero' only at end of file")
    g, P = M.g, M.P
    scans = sorted({n[0] for n in P.calls(r"FileExt>?::read_at$")})
    rep.floor(rule, "zero-tail scanner (function issuing read_at in Op(open))", len(scans), 1)
    for iid in scans:
        inst = g.insts[iid]
        entry = (iid, 0)
        rets = {(iid, bi) for bi, blk in enumerate(inst.body["blocks"]) if not blk["cleanup"] and blk["term"]["k"] == "return"}

        def step(ms, pi, qi, learn, entry=entry):
            nz, eof = ms
            if P.gnode(pi) == entry:
                nz, eof = False, False
            for o, v in norm_learn(learn):
                fl = M.fact_flags(o, v)
                if "nonzero" in fl:
                    nz = True
                if "eof_reached" in fl:
                    eof = True
            return (nz, eof)
        seen = run_monitor(P, (False, False), step)
        bad_f = bad_t = None
        n_f = n_t = 0
        for (pi, ms) in seen:
            if P.gnode(pi) not in rets:
                continue
            tags = P.tags_after_block(pi)
            r0 = tags.get((iid, 0, ()))
            inner = tags.get((iid, 0, ("0",)))
            if not (r0 and r0[0] == "Ok" and inner):
                continue
            if inner[0] == "false":
                n_f += 1
                if not ms[0]:
                    bad_f = (pi, ms)
            elif inner[0] == "true":
                n_t += 1
                if not ms[1] or ms[0]:
                    bad_t = (pi, ms)
        if bad_f:
            rep.violation(rule, "open|tail-scan-says-nonzero-without-a-nonzero-byte", "zero-tail scan",
                          "the scan of the bytes after the last good record can report 'not all zero' without having seen a byte != 0 "
                          "(e.g. a block compare against a fixed-size zero array fails on the last short block): a zero-filled tail left by a "
                          "power loss is then treated as corruption and open refuses a recoverable directory", where=g.where(P.gnode(bad_f[0])),
                          path=describe_path(P, [k[0] for k in path_to(seen, bad_f)]))
        elif n_f:
            rep.ok(rule, "tail scan: 'not zero'", "only after a witnessed byte != 0 (%d return state(s))" % n_f, where=g.where(entry))
        else:
            rep.unresolved(rule, "tail-scan-false-return", "the scanner has no Ok(false) return: idiom not recognised", where=g.where(entry))
        if bad_t:
            rep.violation(rule, "open|tail-scan-says-zero-before-eof", "zero-tail scan",
                          "the scan can report 'all zero' without having reached the end of the file (or after a non-zero byte)",
                          where=g.where(P.gnode(bad_t[0])), path=describe_path(P, [k[0] for k in path_to(seen, bad_t)]))
        elif n_t:
            rep.ok(rule, "tail scan: 'all zero'", "only at end of file with no non-zero byte seen (%d return state(s))" % n_t, where=g.where(entry))


def _ancestors(inst):
    out = []
    while inst is not None:
        out.append(inst)
        inst = inst.parent
    return out
