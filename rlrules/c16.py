"""C16 -- no argument makes a public operation panic.  R16.1 taint from arguments / Types values to panic-capable
operands; R16.2 inventory of argument-independent panic sites."""
import json
import os
import re

from engine import (cmatch, cpath, expr_s, norm_learn, run_monitor, path_to, describe_path, strip_ids, OKV, ERRV, contains)
from helpers import *
from common import VERIF

SOURCE_RX = r"api::types::Types::(log_index|next_log_index|payload_size)$"
PASS_RX = (r"cmp::Ord::(max|min|clamp)$|num::<impl u(8|16|32|64|128|size)>::(wrapping_|saturating_|overflowing_|unchecked_|pow|abs_diff)\w*$|"
           r"Option::<T>::(unwrap_or|unwrap_or_default|unwrap_or_else)$|convert::(From|Into)")
CHECKED_RX = r"num::<impl u(8|16|32|64|128|size)>::checked_\w+$"
MAYPANIC_RX = (r"BTreeMap::<K, V, A>::(range|range_mut)$|Vec::<T, A>::(remove|swap_remove|insert|drain|split_off|truncate|swap)$|"
               r"ops::Index(Mut)?<I>>::index(_mut)?$|slice::<impl \[T\]>::(split_at|split_at_mut|copy_from_slice|swap|chunks|windows|rotate_left|rotate_right)$|"
               r"(Option::<T>|Result::<T, E>)::(unwrap|expect|unwrap_err|expect_err)$|num::<impl u\w+>::(div_ceil|next_multiple_of|ilog\w*)$|"
               r"time::Duration::from_secs_f\w+$|String::(insert|remove|truncate|split_off|drain)\w*$|str::<impl str>::split_at$")
EXPLICIT_PANIC_RX = r"panicking::(panic|panic_fmt|assert_failed|panic_display|unreachable_display|panic_explicit|panic_nounwind)\w*$|option::(unwrap_failed|expect_failed)$"


CONFIG_FIELDS = {"log_cache_max_items", "log_cache_capacity", "read_buffer_size", "chunk_max_records", "chunk_max_size"}


def load_table():
    with open(os.path.join(VERIF, "spec", "c16_discharge.json")) as f:
        return json.load(f)


class Taint:
    def __init__(self, g, all_args):
        self.g = g
        self.all_args = all_args
        self.memo = {}

    def var(self, inst_id, l):
        key = (inst_id, l)
        if key in self.memo:
            return self.memo[key]
        self.memo[key] = False      # cycle: assume not (the other defs decide)
        g = self.g
        inst = g.insts[inst_id]
        r = False
        for d in g.prog.defs(inst.key).get(l, []):
            if d[0] == "s":
                s = inst.body["blocks"][d[1]]["stmts"][d[2]]
                if s["k"] == "assign":
                    if self.t(g.prov_rvalue(inst, s["rv"], None)):
                        r = True
            else:
                if self.t(g.prov_call(inst, d[1])):
                    r = True
        self.memo[key] = r
        return r

    def t(self, e):
        if not isinstance(e, tuple) or not e:
            return False
        h = e[0]
        if h == "arg":
            return e[1] >= (1 if self.all_args else 2)
        if h == "var":
            return self.var(e[1], e[2])
        if h in ("call", "ret"):
            if re.search(SOURCE_RX, e[1]):
                return True
            if re.search(PASS_RX, e[1]) or re.search(CHECKED_RX, e[1]):
                return any(self.t(x) for x in e[2])
            return False
        if h == "field" and e[2] in CONFIG_FIELDS and contains(e[1], lambda x: isinstance(x, tuple) and len(x) == 3 and x[0] == "field" and x[2] == "config"):
            return True      # a configuration value chosen by the user (possibly different from the one the store was written with)
        if h in ("field", "cast", "okval", "errval", "as", "unop", "branch", "residual", "discr", "repeat"):
            return any(self.t(x) for x in e[1:] if isinstance(x, tuple))
        if h == "idx":
            return self.t(e[1]) or self.t(e[2])
        if h == "binop":
            return self.t(e[2]) or self.t(e[3])
        if h == "agg":
            return any(self.t(x) for x in e[3])
        if h == "closure":
            return False
        return False


def entries(ctx):
    out = []
    for b in ctx.facts.doc["bodies"]:
        k = b["key"]
        if re.search(r"RaftLog<T> as api::raft_log_writer::RaftLogWriter<T>>::\w+$", k):
            out.append((k, False))
        elif b.get("impl_self", "").endswith("raft_log::RaftLog<T>") and b.get("pub") and not b.get("impl_trait") \
                and not re.search(r"::(open|load_chunk_ids)$", k):
            out.append((k, not re.search(r"fn\(&'a (mut )?raft_log::raft_log::RaftLog<T>", b.get("sig", ""))))
        elif re.search(r"RaftLog::<T>::read::\{closure#\d+\}$", k):
            out.append((k, False))
        elif k == "api::types::Types::next_log_index":
            out.append((k, True))
        elif re.search(r"DumpRaftLogIter<'_, T> as std::iter::Iterator>::next$|dump_raft_log::DumpRaftLog::<T>::(iter|state)$|"
                       r"dump::Dump::<T>::new$|config::Config::(chunk_path|new|new_full|\w+)$", k) and (b.get("pub") or "Iterator" in k):
            out.append((k, not re.search(r"fn\(&'a ", b.get("sig", "")) and "Iterator" not in k))
    return sorted(set(out))


def range_guarded(a):
    """Range{start, end}: end is max(start, _) / start is min(_, end)"""
    if isinstance(a, tuple) and a[0] == "agg" and "Range" in str(a[1]) and len(a[3]) == 2:
        s, e = a[3]
        if call_is(e, r"cmp::Ord::max$") and s in e[2]:
            return True
        if call_is(s, r"cmp::Ord::min$") and e in s[2]:
            return True
    return False


OPT_UNWRAP_RX = r"Option::<T>::(unwrap|expect)$"
CMP_RX = r"cmp::PartialOrd::(lt|le|gt|ge)$"
PEEK_RX = (r"BTreeMap::<K, V, A>::(first_key_value|last_key_value)$|VecDeque::<T, A>::(front|back)$|slice::<impl \[T\]>::(first|last)$|"
           r"iter::Iterator>?::last$|iter::DoubleEndedIterator>?::next_back$")
POP_RX = r"BTreeMap::<K, V, A>::(pop_first|pop_last)$|VecDeque::<T, A>::(pop_front|pop_back)$|Vec::<T, A>::pop$"


def _is_some_agg(e):
    return isinstance(e, tuple) and len(e) > 2 and e[0] == "agg" and e[1].endswith("option::Option") and e[2] == "Some"


def option_unwrap_verdicts(g, P, site_filter=None):
    """{unwrap/expect call node on an Option: True iff every path reaching it has established the value to be Some}, plus the
    stripped operand of each site.  Facts: a variant test on the place, is_some/is_none, `Some(x) <,<= opt` taken (`>=,>` refused),
    a peek (first_key_value / last_key_value / front / back / first / last / iter().last()) that returned Some before a pop of the
    same container, with no write to the value / mutation of the container in between."""
    sites = [n for n in P.calls(OPT_UNWRAP_RX) if not g.term(n).get("exp")]
    cand = {n: strip_ids(event_args(g, n)[0]) for n in sites}
    if site_filter:
        sites = [n for n in sites if site_filter(cand[n])]
        cand = {n: cand[n] for n in sites}
    if not sites:
        return {}, {}
    cmps = {n for n in P.calls(CMP_RX)}
    peeks = {n for n in P.calls(PEEK_RX)}
    pops = {n for n in P.calls(POP_RX)}
    tests = {n for n in P.calls(r"Option::<T>::(is_some|is_none)$")}
    verdict = {}
    want_some = set(cand.values())
    want_nonempty = set()

    def container(e):
        # iter().last(): the emptiness fact is about the container behind the iterator
        while isinstance(e, tuple) and e and e[0] == "call" and re.search(r"::(iter|iter_mut|values|keys|into_iter)$", str(e[1])) and e[2]:
            e = e[2][0]
        return e
    for n in pops:
        if strip_ids(g.prov_call(g.inst(n), n[1])) in want_some:
            a = [strip_ids(x) for x in event_args(g, n)]
            if a:
                want_nonempty.add(a[0])

    def fname(e):
        return e[2] if isinstance(e, tuple) and e and e[0] == "field" else None

    def step(ms, pi, qi, learn):
        known = set(ms)
        n = P.gnode(pi)
        for st in g.stmts(n):
            if st["k"] == "assign" and st["p"]["proj"]:
                fl = [el for el in st["p"]["proj"] if isinstance(el, dict) and "f" in el]
                if fl:
                    nm = fl[-1].get("n")
                    known = {k for k in known if not (k[0] == "some" and fname(k[1]) == nm)}
        t = g.term(n)
        if n in cand:
            e = cand[n]
            ok = ("some", e) in known
            if not ok:
                tg = P.operand_tag(pi, t["args"][0]) if t.get("args") else None
                ok = bool(tg) and tg[0] == "Some"
            verdict[n] = verdict.get(n, True) and ok
        if n in pops:
            a = [strip_ids(x) for x in event_args(g, n)]
            res = strip_ids(g.prov_call(g.inst(n), n[1]))
            known.discard(("some", res))
            if a and ("nonempty", a[0]) in known:
                known.add(("some", res))
            known = {k for k in known if not (k[0] == "nonempty" and a and k[1] == a[0])}
        elif t["k"] == "call" and n not in g.callee_inst and n not in peeks and mut_first_arg(g, n):
            a = [strip_ids(x) for x in event_args(g, n)]
            if a:
                known = {k for k in known if not (k[0] == "nonempty" and k[1] == a[0])}
        for o, v in norm_learn(learn):
            cn = origin_call(o)
            if cn in cmps:
                a = [strip_ids(x) for x in event_args(g, cn)]
                nm = cpath(g.term(cn)).split("::")[-1]
                if len(a) == 2:
                    if _is_some_agg(a[0]) and ((nm in ("lt", "le") and v == "true") or (nm in ("ge", "gt") and v == "false")):
                        known.add(("some", a[1]))
                    if _is_some_agg(a[1]) and ((nm in ("gt", "ge") and v == "true") or (nm in ("le", "lt") and v == "false")):
                        known.add(("some", a[0]))
            elif cn in peeks and v in ("Some", "Continue"):
                a = [strip_ids(x) for x in event_args(g, cn)]
                if a:
                    known.add(("nonempty", container(a[0])))
            elif cn in tests:
                a = [strip_ids(x) for x in event_args(g, cn)]
                nm = cpath(g.term(cn)).split("::")[-1]
                if a and ((nm == "is_some" and v == "true") or (nm == "is_none" and v == "false")):
                    known.add(("some", a[0]))
            elif cn is None and v == "Some" and isinstance(o, tuple) and o and o[0] == "place":
                e = origin_place_expr(g, o)
                if e is not None:
                    known.add(("some", strip_ids(e)))
        known = {k for k in known if (k[0] == "some" and k[1] in want_some) or (k[0] == "nonempty" and k[1] in want_nonempty)}
        return frozenset(known)
    run_monitor(P, frozenset(), step)
    return verdict, cand


def r16_3(ctx, rep, ents, floor=4, site_filter=None):
    """R16.3: Option::unwrap / expect in a public cone only on a value the path has established to be Some."""
    rep.rule("R16.3", "every Option::unwrap/expect in the cone of a public operation is reached only on paths that established the value to be "
                      "Some: a variant test, `Some(x) < / <= opt` taken (or `Some(x) >= / > opt` refused), or a peek (first_key_value..) that "
                      "returned Some before the pop - with no write to the value in between. Whether the panic is reachable otherwise depends "
                      "on argument values through the guard, so an unguarded unwrap is reported")
    seen_sites = {}
    for key, all_args in ents:
        g = ctx.graph(key)
        P = ctx.product(key)
        op = short_key(key).split("::")[-1] if "closure" not in key else "read-closure"
        verdict, cand = option_unwrap_verdicts(g, P, site_filter)
        for n in sorted(verdict):
            sid = (g.inst(n).key, n[1])
            if sid in seen_sites:
                continue
            seen_sites[sid] = True
            sig = "unwrap(%s)" % expr_s(cand[n])[:70]
            if verdict[n]:
                rep.ok("R16.3", "%s: %s" % (op, sig), "established Some on every path reaching it", where=g.where(n))
            else:
                rep.violation("R16.3", "%s|%s" % (op, sig), "%s: %s" % (op, sig),
                              "an Option is unwrapped on a path that has not established it to be Some: the guard in front of it does not imply "
                              "it (e.g. the compared value is not the unwrapped one), so some argument / stored state reaches a panic",
                              where=g.where(n))
    # a cone without any Option::unwrap is fine (nothing to guard); the recogniser itself is anchored on the crate as a whole
    n_any = sum(1 for b in ctx.facts.doc["bodies"] for blk in b.get("blocks", [])
                if blk["term"]["k"] == "call" and re.search(OPT_UNWRAP_RX, (blk["term"]["callee"].get("path") or "")))
    rep.floor("R16.3", "Option::unwrap/expect call sites recognised in the crate (recogniser anchor)", n_any, 1)
    rep.notes.append("R16.3: %d Option unwrap site(s) in the analysed cones" % len(seen_sites))


LOCK_RX = r"sync::(poison::)?(rwlock::)?RwLock::<T>::(write|read)$|sync::(poison::)?(mutex::)?Mutex::<T>::lock$"
GUARD_TY_RX = r"RwLockWriteGuard|RwLockReadGuard|MutexGuard"


def r16_4(ctx, rep):
    """R16.4: the background worker executes no panic-capable site while it holds a lock that public operations unwrap."""
    rep.rule("R16.4", "between acquiring and dropping a lock guard the flush worker reaches no explicit panic/assert!/debug_assert!, no "
                      "arithmetic/bounds assert and no Option/Result unwrap (other than the lock acquisition itself): a panic there poisons "
                      "the lock, and every later public operation panics on its `lock().unwrap()` - for ordinary arguments")
    wk, _, _ = ctx.worker_entry()
    g = ctx.graph(wk)
    P = ctx.product(wk)
    locks = set(P.calls(LOCK_RX))
    rep.floor("R16.4", "lock acquisitions in the worker", len(locks), 1)

    def is_guard_drop(n):
        t = g.term(n)
        return t["k"] == "drop" and re.search(GUARD_TY_RX, t.get("ty", "") or "")

    def risky(n):
        t = g.term(n)
        if t["k"] == "assert" and not t["synthetic"]:
            return "assert:%s" % t["akind"]
        if t["k"] == "call" and n not in g.callee_inst:
            if cmatch(t, EXPLICIT_PANIC_RX):
                return "panic:%s" % ((t.get("macros") or ["?"])[-1])
            if cmatch(t, r"(Option::<T>|Result::<T, E>)::(unwrap|expect|unwrap_err|expect_err)$"):
                a = event_args(g, n)
                # the acquisition's own poison unwrap is the thing being protected, not a new risk
                raw = g.term(n)["args"][0] if g.term(n).get("args") else None
                src = g.prov_operand(g.inst(n), raw) if raw else None
                ty = g.inst(n).body["locals"][raw["p"]["l"]]["ty"] if raw and raw.get("p") else ""
                if re.search(GUARD_TY_RX, ty):
                    return None
                return "unwrap"
            if cmatch(t, MAYPANIC_RX) and not cmatch(t, r"(Option::<T>|Result::<T, E>)::"):
                return "may-panic:%s" % cpath(t).split("::")[-1]
        return None

    def step(ms, pi, qi, learn):
        n = P.gnode(pi)
        if n in locks:
            return ms + 1 if ms < 3 else ms
        if is_guard_drop(n):
            return max(0, ms - 1)
        return ms
    seen = run_monitor(P, 0, step)
    bad = {}
    n_under = 0
    for (pi, ms) in seen:
        n = P.gnode(pi)
        if ms > 0 and n not in locks:
            n_under += 1
            r = risky(n)
            if r and (g.inst(n).key, n[1]) not in bad:
                bad[(g.inst(n).key, n[1])] = (n, r)
    for (_k, (n, r)) in sorted(bad.items(), key=str):
        rep.violation("R16.4", "worker|%s-under-lock" % r, "worker: %s while holding a lock" % r,
                      "the worker can panic while it holds a lock guard (%s): the lock is poisoned and every later public operation that takes "
                      "it panics in `.unwrap()`" % r, where=g.where(n))
    if not bad:
        rep.ok("R16.4", "worker lock regions", "%d acquisition(s); %d product state(s) under a guard, none panic-capable" % (len(locks), n_under),
               where=g.where(sorted(locks)[0]) if locks else "")


def run(ctx, rep):
    rep.rule("R16.1", "every panic-capable site (overflow/bounds/division assert, may-panic std call) in the cone of a public "
                      "operation whose operand is data-dependent on an argument, on a Types::log_index/next_log_index/payload_size "
                      "value or on a Config limit is guarded, or discharged by an entry of spec/c16_discharge.json")
    rep.rule("R16.2", "inventory of argument-independent panic sites (explicit panics, lock-poison unwraps, internal offset arithmetic): counted, not armed")
    table = load_table()
    ents = entries(ctx)
    rep.floor("R16.1", "public operation entries", len(ents), 14)
    seen_sites = set()
    n_sinks = n_tainted = n_inventory = 0
    for key, all_args in ents:
        g = ctx.graph(key)
        P = ctx.product(key)
        T = Taint(g, all_args)
        op = short_key(key).split("::")[-1] if "closure" not in key else "read-closure"
        if key == "api::types::Types::next_log_index":
            op = "Types::next_log_index"
        for n in sorted(P.live):
            t = g.term(n)
            site_id = (g.inst(n).key, n[1])
            if t["k"] == "assert" and not t["synthetic"]:
                ops = [strip_ids(g.prov_operand(g.inst(n), o)) for o in t["ops"]]
                n_sinks += 1
                tainted = any(T.t(o) for o in ops)
                sig = "%s(%s)" % (t["akind"], ", ".join(expr_s(o)[:70] for o in ops))
                if not tainted:
                    if site_id not in seen_sites:
                        n_inventory += 1
                    seen_sites.add(site_id)
                    continue
                n_tainted += 1
                d = None
                for row in table:
                    if re.search(row["kind"], t["akind"]) and len(ops) == 2 and re.search(row["a"], expr_s(ops[0])) \
                            and re.search(row["b"], expr_s(ops[1])):
                        d = row
                        break
                if d is None and t["akind"] == "Overflow(Sub)" and len(ops) == 2 and call_is(ops[0], r"cmp::Ord::max$") \
                        and ops[1] in ops[0][2]:
                    d = {"reason": "max(x, y) - y cannot underflow"}
                if d:
                    if site_id not in seen_sites:
                        rep.ok("R16.1", "%s: %s" % (op, sig), "discharged by table: " + d["reason"][:100], where=g.where(n))
                    seen_sites.add(site_id)
                    continue
                k = "%s|%s" % (op, sig)
                rep.violation("R16.1", k, "%s: %s" % (op, sig),
                              "arithmetic on a caller-supplied value can overflow: `%s` panics (debug) / wraps (release) for an "
                              "argument at the integer limit" % sig, where=g.where(n))
            elif t["k"] == "call" and n not in g.callee_inst:
                if cmatch(t, EXPLICIT_PANIC_RX):
                    if site_id not in seen_sites:
                        n_inventory += 1
                        rep.ok("R16.2", "%s: explicit panic %s" % (op, (t.get("macros") or ["?"])[-1]), "argument-independent (internal invariant)",
                               where=g.where(n), nontrivial=False)
                    seen_sites.add(site_id)
                    continue
                if not cmatch(t, MAYPANIC_RX):
                    continue
                args = [strip_ids(a) for a in event_args(g, n)]
                n_sinks += 1
                nm = cpath(t).split("::")[-1]
                if nm in ("unwrap", "expect", "unwrap_err", "expect_err"):
                    dep = T.t(args[0]) if args else False
                elif nm in ("index", "index_mut"):
                    dep = len(args) > 1 and T.t(args[1])
                else:
                    dep = any(T.t(a) for a in args[1:])
                if not dep:
                    if site_id not in seen_sites:
                        n_inventory += 1
                    seen_sites.add(site_id)
                    continue
                n_tainted += 1
                sig = "%s(%s)" % (nm, ", ".join(expr_s(a)[:60] for a in args[1:] if True))
                if nm in ("range", "range_mut") and len(args) > 1 and range_guarded(args[1]):
                    rep.ok("R16.1", "%s: %s" % (op, sig), "range end is max(start, _): never start > end", where=g.where(n))
                    continue
                k = "%s|%s" % (op, sig)
                rep.violation("R16.1", k, "%s: %s" % (op, sig),
                              "a std call that panics on bad arguments (%s) receives a caller-supplied value without a guard" % cpath(t),
                              where=g.where(n))
    rep.floor("R16.1", "panic-capable sites examined", n_sinks, 40)
    r16_3(ctx, rep, ents)
    r16_4(ctx, rep)
    rep.ok("R16.2", "inventory", "%d distinct argument-independent panic-capable sites in public cones (not armed)" % n_inventory,
           nontrivial=False)
    rep.notes.append("tainted sinks: %d" % n_tainted)
