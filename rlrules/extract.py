"""E1 front-end: run the rlfacts driver over a source tree (default /repo) and cache the
fact file by the content hash of the sources it was produced from.

The driver is injected as RUSTC_WORKSPACE_WRAPPER under `cargo +nightly check --offline --lib`
run IN the analysed tree (never a copy of it made by this module); dev profile
(overflow checks and debug assertions on), -Zmir-opt-level=0.
"""
import glob
import hashlib
import os
import shutil
import subprocess
import sys
import time

VERIF = os.path.dirname(os.path.dirname(os.path.abspath(__file__)))
CACHE = os.path.join(VERIF, ".cache")
DRIVER_DIR = os.path.join(VERIF, "rlfacts")
DRIVER = os.path.join(DRIVER_DIR, "target", "release", "rlfacts")


def _sh(cmd, **kw):
    return subprocess.run(cmd, stdout=subprocess.PIPE, stderr=subprocess.STDOUT, text=True, **kw)


def source_files(repo):
    fs = []
    for root, _dirs, files in os.walk(os.path.join(repo, "src")):
        for f in files:
            if f.endswith(".rs"):
                fs.append(os.path.join(root, f))
    for f in ("Cargo.toml", "Cargo.lock"):
        p = os.path.join(repo, f)
        if os.path.exists(p):
            fs.append(p)
    return sorted(fs)


def source_hash(repo):
    h = hashlib.sha256()
    for p in source_files(repo):
        h.update(os.path.relpath(p, repo).encode())
        h.update(b"\0")
        with open(p, "rb") as f:
            h.update(f.read())
        h.update(b"\0")
    with open(os.path.join(DRIVER_DIR, "src", "main.rs"), "rb") as f:
        h.update(f.read())
    return h.hexdigest()[:24]


def nightly_sysroot():
    r = _sh(["rustc", "+nightly", "--print", "sysroot"])
    return r.stdout.strip()


def ensure_driver():
    src = os.path.join(DRIVER_DIR, "src", "main.rs")
    if os.path.exists(DRIVER) and os.path.getmtime(DRIVER) >= os.path.getmtime(src):
        return
    env = dict(os.environ, CARGO_NET_OFFLINE="true")
    r = _sh(["cargo", "+nightly", "build", "--release", "--offline"], cwd=DRIVER_DIR, env=env)
    if r.returncode != 0 or not os.path.exists(DRIVER):
        sys.stderr.write(r.stdout)
        raise RuntimeError("cannot build rlfacts driver")


def get_facts(repo="/repo", slot="main"):
    """Returns (facts_path, info). Fails (raises) if the driver did not produce facts."""
    os.makedirs(CACHE, exist_ok=True)
    h = source_hash(repo)
    out = os.path.join(CACHE, "facts-%s.json" % h)
    info = {"source_hash": h, "repo": repo, "cached": True, "extract_s": 0.0}
    if os.path.exists(out) and os.path.getsize(out) > 1000:
        return out, info
    ensure_driver()
    t0 = time.time()
    target = os.path.join(CACHE, "target-%s" % slot)
    main_t = os.path.join(CACHE, "target-main")
    if slot != "main" and not os.path.exists(target) and os.path.exists(main_t):
        # seed a new slot from the main slot's compiled dependencies (copying is faster than rebuilding)
        subprocess.run(["cp", "-a", main_t, target])
    # cargo's freshness cache would silently skip the wrapper: forget the crate's fingerprint
    for d in glob.glob(os.path.join(target, "debug", ".fingerprint", "raft-log-*")):
        shutil.rmtree(d, ignore_errors=True)
    tmp = out + ".tmp.%d" % os.getpid()
    env = dict(os.environ)
    env.update({
        "LD_LIBRARY_PATH": os.path.join(nightly_sysroot(), "lib"),
        "RUSTFLAGS": "-Zmir-opt-level=0 -Awarnings",
        "RUSTC_WORKSPACE_WRAPPER": DRIVER,
        "RLFACTS_OUT": tmp,
        "RLFACTS_CRATE": "raft_log",
        "CARGO_TARGET_DIR": target,
        "CARGO_INCREMENTAL": "0",
        "CARGO_NET_OFFLINE": "true",
    })
    env.pop("RUSTC_WRAPPER", None)
    r = _sh(["cargo", "+nightly", "check", "--offline", "--lib", "-q"], cwd=repo, env=env)
    info["cached"] = False
    info["extract_s"] = round(time.time() - t0, 2)
    if r.returncode != 0:
        if os.path.exists(tmp):
            os.remove(tmp)
        raise RuntimeError("cargo check with rlfacts failed on %s:\n%s" % (repo, r.stdout[-4000:]))
    if not os.path.exists(tmp) or os.path.getsize(tmp) < 1000:
        raise RuntimeError("rlfacts produced no fact file for %s (stale cargo cache?)\n%s" % (repo, r.stdout[-2000:]))
    os.replace(tmp, out)
    # keep the cache small: drop fact files older than the 500 most recent
    fs = sorted(glob.glob(os.path.join(CACHE, "facts-*.json")), key=os.path.getmtime)
    for f in fs[:-500]:
        try:
            os.remove(f)
        except OSError:
            pass
    return out, info


if __name__ == "__main__":
    p, info = get_facts(sys.argv[1] if len(sys.argv) > 1 else "/repo")
    print(p, info)
