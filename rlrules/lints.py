"""Repository-specific API-misuse lints (who-may-call rules over resolved callees).  Each is a necessary condition of the
properties listed with it; they run as part of those properties' checks (see related.py)."""
import re

from engine import cmatch, cpath
from helpers import short_key
from common import rel

# (rule id, description, callee regex, scope regex over the enclosing body key (None = whole lib), message)
LINTS = [
    ("L.partial-write", "no partial-write API on files: short writes must be completed (write_all) or fail",
     r"io::Write::(write|write_vectored)$|FileExt>?::write_at$|io::impls::<impl std::io::Write for .*>::(write|write_vectored)$",
     r"flush_worker|open_chunk|chunk::",
     "a write API that may write fewer bytes than given without an error is used on a chunk file"),
    ("L.partial-read", "no partial-read API in the decoder / recovery / positional reader: a short read is not end of input",
     r"io::Read::(read|read_vectored|read_buf)$",
     r"wal_record|raft_log_state|record_iterator|chunk::Chunk",
     "a single `read` (which may legally return fewer bytes) is used where a record is decoded"),
    ("L.try-lock", "the payload cache lock is always acquired blocking: a skipped critical section is a skipped obligation",
     r"sync::(poison::rwlock::)?RwLock::<T>::(try_write|try_read)$|sync::(poison::mutex::)?Mutex::<T>::try_lock$",
     None,
     "a lock is acquired with try_*: when it is busy the guarded work (eviction, boundary update, drain) is silently skipped"),
    ("L.try-send", "requests to the worker are never dropped: the channel send blocks",
     r"mpsc::SyncSender::<T>::try_send$",
     None,
     "a request to the flush worker (or an acknowledgement to the caller) is sent with try_send: it is dropped when the queue is full"),
    ("L.file-create-truncate", "chunk files are never opened with truncate/File::create (only create_new)",
     r"fs::File::create$",
     None,
     "a file is opened with File::create (truncating an existing chunk)"),
    ("L.process-exit", "library code never aborts the process",
     r"process::(exit|abort)$",
     None,
     "library code calls process::exit/abort"),
]


def run(ctx, rep, rule_ids):
    for rid, desc, rx, scope, msg in LINTS:
        if rid not in rule_ids:
            continue
        rep.rule(rid, desc)
        sites = ctx.all_calls(rx)
        n_bad = 0
        for b, bi, t in sites:
            if t.get("exp"):
                continue
            if scope is not None and not re.search(scope, b["key"]):
                continue
            # the crate's own Callback impl for SyncSender is what most users hand to flush(): a try_send there drops acknowledgements
            # (seed C04-10); only the blocking-send lints that do not concern it skip it
            if rid != "L.try-send" and re.search(r" as raft_log::wal::callback::Callback>::send$", b["key"]):
                continue
            n_bad += 1
            rep.violation(rid, "%s|%s" % (short_key(b["key"]), cpath(t).split("::")[-1]), cpath(t), msg,
                          where="%s:%d" % (rel(t["file"]), t["line"]))
        if not n_bad:
            rep.ok(rid, desc[:70], "0 sites in scope (%d call sites of that API in the lib)" % len(sites), nontrivial=True)
