"""C15 -- payload cache accounting (R15.1 balance, R15.2/3/4 eviction loop tables, R15.5 stat under one guard, R15.6 guarded eviction)."""
import re

from engine import (cmatch, cpath, expr_s, norm_learn, run_monitor, path_to, describe_path, strip_ids, OKV, ERRV, contains,
                    natural_loops, finals)
from helpers import *

MAP = lambda e: is_field(e, "cache") and not is_field(e[1], "cache")
MAP_RX = r"BTreeMap::<K, V, A>::(\w+)$"
MAP_MUT_KNOWN = {"insert", "pop_first", "pop_last", "clear"}
PSIZE_RX = r"api::types::Types::payload_size$"


def cache_methods(ctx):
    """the &mut methods of PayloadCache that something outside PayloadCache calls: private helpers used only by other methods of the
    type are analysed as part of their callers (they are inlined there) - alone, a helper like `release(payload)` is unbalanced by design"""
    cand = []
    for b in ctx.facts.doc["bodies"]:
        if "payload_cache::PayloadCache<T>" in b.get("impl_self", "") and not b.get("impl_trait") \
                and re.search(r"fn\(&'a mut ", b.get("sig", "")):
            cand.append(b["key"])
    inside = {b["key"] for b in ctx.facts.doc["bodies"]
              if "payload_cache::PayloadCache<T>" in (b.get("impl_self") or "") or re.search(r"payload_cache::PayloadCache(<T>>|::<T>)::", b["key"])}
    callers = {}
    for b in ctx.facts.doc["bodies"]:
        for blk in b["blocks"]:
            t = blk["term"]
            if not blk["cleanup"] and t["k"] == "call":
                k = t["callee"].get("rkey") or t["callee"].get("key")
                if k:
                    callers.setdefault(k, set()).add(b["key"])
    out = [k for k in cand if not (callers.get(k) and callers[k] <= inside)]
    return sorted(out)


def size_delta(g, n, si):
    """for an assignment to PayloadCache.size: ('+'|'-', payload expr) | ('=0',) | ('?', expr) | None"""
    s = g.stmts(n)[si]
    if s["k"] != "assign":
        return None
    pe = g.prov_place(g.inst(n), s["p"])
    if not (is_field(pe, "size") and s["p"]["proj"]):
        return None
    rv = strip_ids(g.prov_rvalue(g.inst(n), s["rv"], None))
    e = rv
    if isinstance(e, tuple) and e[0] == "field" and e[1][0] == "binop":
        e = e[1]
    if isinstance(e, tuple) and e[0] == "binop" and re.match(r"(Add|Sub)(WithOverflow|Unchecked)?$", e[1]):
        sign = "+" if e[1].startswith("Add") else "-"
        a, b = e[2], e[3]
        if strip_ids(a) == strip_ids(pe):
            x = b
            while isinstance(x, tuple) and x[0] == "cast":
                x = x[1]
            if call_is(x, PSIZE_RX):
                return (sign, call_arg(x, 0))
            return ("?", rv)
    if is_const(e, 0):
        return ("=0",)
    return ("?", rv)


def balance(ctx, rep, key):
    g = ctx.graph(key)
    P = ctx.product(key)
    name = short_key(key).split("::")[-1]
    map_calls = {}
    for n in P.calls(MAP_RX):
        a = event_args(g, n)
        if a and MAP(a[0]) and mut_first_arg(g, n):
            map_calls[n] = cpath(g.term(n)).split("::")[-1]
    # the map replaced wholesale (mem::take / mem::replace / mem::swap on the map place): counts as a clear / an unknown mutation
    for n in P.calls(r"mem::(take|replace|swap)$"):
        a = event_args(g, n)
        if a and any(MAP(strip_ids(x)) for x in a):
            map_calls[n] = "clear" if cmatch(g.term(n), r"mem::take$") else "mem::" + cpath(g.term(n)).split("::")[-1]
    size_writes = {}
    map_assigns = set()
    for n in g.nodes:
        if n not in P.live:
            continue
        for si in range(len(g.stmts(n))):
            d = size_delta(g, n, si)
            if d is not None:
                size_writes.setdefault(n, []).append(d)
            st = g.stmts(n)[si]
            # the map overwritten by assignment (`self.cache = BTreeMap::new()`): every resident entry is dropped - a clear
            if st["k"] == "assign" and st["p"]["proj"] and g.inst(n).kind != "closure":
                try:
                    pe_ = strip_ids(g.prov_place(g.inst(n), st["p"]))
                except Exception:
                    pe_ = None
                if pe_ is not None and MAP(pe_):
                    map_assigns.add(n)
    heads = {h for h, _b in natural_loops(g)}

    def settle(pend):
        """cancel matching map/size deltas"""
        pend = set(pend)
        changed = True
        while changed:
            changed = False
            for it in list(pend):
                if it[0] == "m+":
                    for jt in pend:
                        if jt[0] == "s+" and jt[1] == it[1]:
                            pend -= {it, jt}
                            changed = True
                            break
                        if jt[0] == "m-" and jt[1] == it[1]:        # popped then re-inserted
                            pend -= {it, jt}
                            changed = True
                            break
                elif it[0] == "m-":
                    for jt in pend:
                        if jt[0] == "s-" and jt[1] == it[1]:
                            pend -= {it, jt}
                            changed = True
                            break
                if changed:
                    break
        return frozenset(pend)

    def step(ms, pi, qi, learn):
        pend = set(ms)
        n = P.gnode(pi)
        if n in map_calls:
            nm = map_calls[n]
            a = [strip_ids(x) for x in event_args(g, n)]
            me = strip_ids(g.prov_call(g.inst(n), n[1]))
            if nm == "insert":
                pend.add(("m+", a[2]))
                # displaced value: unknown until the result is inspected, unless the key was just popped
                if not any(it[0] == "m-" and isinstance(it[1], tuple) and it[1][0] == "field" and a[1][0] == "field"
                           and it[1][1] == a[1][1] for it in pend):
                    pend.add(("displaced?", n))
            elif nm in ("pop_first", "pop_last"):
                pend.add(("popped?", n))
            elif nm == "clear":
                pend.add(("cleared", n))
            else:
                pend.add(("unknown-map-mutation", nm, n))
        if n in map_assigns:
            pend.add(("cleared", n))
        for d in size_writes.get(n, []):
            if d[0] == "+":
                pend.add(("s+", strip_ids(d[1])))
            elif d[0] == "-":
                pend.add(("s-", strip_ids(d[1])))
            elif d[0] == "=0":
                if any(it[0] == "cleared" for it in pend):
                    pend = {it for it in pend if it[0] != "cleared"}
                else:
                    pend.add(("size-reset-without-clear", n))
            else:
                pend.add(("unknown-size-write", n))
        for o, v in norm_learn(learn):
            cn = origin_call(o)
            if cn in map_calls:
                nm = map_calls[cn]
                res = strip_ids(g.prov_call(g.inst(cn), cn[1]))
                if nm == "insert" and ("displaced?", cn) in pend:
                    pend.discard(("displaced?", cn))
                    if v == "Some":
                        pend.add(("m-", ("okval", res)))
                elif nm in ("pop_first", "pop_last") and ("popped?", cn) in pend:
                    pend.discard(("popped?", cn))
                    if v == "Some":
                        pend.add(("m-", ("field", ("okval", res), "1")))
        return settle(pend)

    seen = run_monitor(P, frozenset(), step)
    # obligations: balanced at every exit and at every loop head arrival
    worst = None
    for (pi, ms0, ms) in finals(P, seen, step):
        if P.gnode(pi) in g.exits and ms:
            worst = (pi, ms0, list(ms))
            break
    if worst is None:
        for (pi, ms) in seen:
            n = P.gnode(pi)
            if n in heads and ms:
                # an unresolved pop at a loop head (`while let Some(..) = pop()`) is resolved right after the head
                hard = [it for it in ms if it[0] not in ("popped?",)]
                if hard:
                    worst = (pi, ms, hard)
                    break
    if worst:
        pi, ms, hard = worst
        it = sorted(hard, key=str)[0]
        kind = it[0]
        msg = {
            "displaced?": "BTreeMap::insert may replace an existing payload, but its result is discarded: `size` is not reduced by the replaced payload",
            "m+": "a payload is inserted into the map without `size += payload_size(payload)`",
            "m-": "a payload leaves the map without `size -= payload_size(payload)`",
            "s+": "`size` is increased for a payload that is not inserted",
            "s-": "`size` is decreased for a payload that is not removed",
            "cleared": "the map is cleared without `size = 0`",
            "popped?": "an entry is popped and its payload is not accounted for",
        }.get(kind, "map/size effects do not balance: %s" % kind)
        detail = expr_s(it[1])[:80] if len(it) > 1 and isinstance(it[1], tuple) and not (it[1] and isinstance(it[1][0], int)) else ""
        rep.violation("R15.1", "%s|%s" % (name, kind), "PayloadCache::%s" % name,
                      "%s %s" % (msg, detail), where=g.where(P.gnode(pi)),
                      path=describe_path(P, [k[0] for k in path_to(seen, (pi, ms))]))
    else:
        rep.ok("R15.1", "PayloadCache::%s" % name,
               "map and size effects balance on every path (%d map mutators, %d size writes)" % (len(map_calls), sum(len(v) for v in size_writes.values())),
               where=g.where(g.entry))
    return len(map_calls)


def over_limit_fact(g, o, v):
    """('items'|'bytes', bool outcome of `over the limit`) for a learned comparison, else None"""
    e = origin_stmt_expr(g, o)
    if not e or e[0] != "binop":
        return None
    op, a, b = e[1], strip_ids(e[2]), strip_ids(e[3])

    def cls(x, y):
        if call_is(x, r"BTreeMap::<K, V, A>::len$") and is_field(y, "max_items"):
            return "items"
        if is_field(x, "size") and is_field(y, "capacity"):
            return "bytes"
        return None
    c = cls(a, b)
    if c:
        table = {("Gt", "true"): True, ("Gt", "false"): False, ("Ge", "false"): False, ("Le", "true"): False, ("Le", "false"): True,
                 ("Lt", "true"): False}
        r = table.get((op, v))
        return (c, r) if r is not None else None
    c = cls(b, a)
    if c:
        table = {("Lt", "true"): True, ("Lt", "false"): False, ("Le", "false"): False, ("Ge", "true"): False, ("Ge", "false"): True,
                 ("Gt", "true"): False}
        r = table.get((op, v))
        return (c, r) if r is not None else None
    return None


def boundary_fact(g, cn, v):
    """does learning outcome v of comparison call cn say `first key <= last_evictable` (True) / `>` (False)?"""
    t = g.term(cn)
    nm = cpath(t).split("::")[-1]
    if nm not in ("le", "lt", "gt", "ge"):
        return None
    a = [strip_ids(x) for x in event_args(g, cn)]

    def is_first(e):
        return contains(e, lambda x: call_is(x, r"BTreeMap::<K, V, A>::first_key_value$") and MAP(call_arg(x, 0)))

    def is_bound(e):
        return is_field(e, "last_evictable")
    if is_first(a[0]) and is_bound(a[1]):
        return {("le", "true"): True, ("le", "false"): False, ("gt", "true"): False, ("gt", "false"): True}.get((nm, v))
    if is_bound(a[0]) and is_first(a[1]):
        return {("ge", "true"): True, ("ge", "false"): False, ("lt", "true"): False, ("lt", "false"): True}.get((nm, v))
    return None


def eviction_tables(ctx, rep, key, need_limit):
    """R15.2/3/4 + R15.6 on an eviction entry (insert / drain_evictable)"""
    g = ctx.graph(key)
    P = ctx.product(key)
    name = short_key(key).split("::")[-1]
    maps = {n: cpath(g.term(n)).split("::")[-1] for n in P.calls(MAP_RX)
            if event_args(g, n) and MAP(event_args(g, n)[0]) and mut_first_arg(g, n)}
    firsts = [n for n in P.calls(r"BTreeMap::<K, V, A>::first_key_value$") if MAP(event_args(g, n)[0])]
    cmps = P.calls(r"cmp::PartialOrd(<.*>)?>?::(gt|ge|lt|le)$|cmp::impls::<impl .*PartialOrd.*>::(gt|ge|lt|le)$")

    # state: (items_ok, bytes_ok, pinned_or_empty, guard_ok)
    def step(ms, pi, qi, learn):
        items_ok, bytes_ok, stop, guard = ms
        n = P.gnode(pi)
        if n in maps:
            items_ok = bytes_ok = stop = guard = False
        for o, v in norm_learn(learn):
            f = over_limit_fact(g, o, v)
            if f:
                if f[0] == "items":
                    items_ok = (f[1] is False)
                else:
                    bytes_ok = (f[1] is False)
            cn = origin_call(o)
            if cn in firsts and v == "None":
                stop = True
            if cn in cmps:
                b = boundary_fact(g, cn, v)
                if b is False:
                    stop = True
                if b is True:
                    guard = True
        return (items_ok, bytes_ok, stop, guard)

    seen = run_monitor(P, (False, False, False, False), step)
    # R15.6 guarded eviction: every pop_first here is preceded by `first <= last_evictable` since the last map mutation
    pops = [n for n, nm in maps.items() if nm in ("pop_first", "pop_last", "remove", "retain", "clear", "split_off")]
    for n in pops:
        bad = next(((pi, ms) for (pi, ms) in seen if P.gnode(pi) == n and not ms[3]), None)
        if bad:
            rep.violation("R15.6", "%s|unguarded-eviction:%s" % (name, maps[n]), "eviction in %s" % name,
                          "an entry is evicted on a path that has not established `first key <= last_evictable` for the current first "
                          "entry: a pinned (not yet durable / open-chunk) payload can be dropped", where=g.where(n),
                          path=describe_path(P, [k[0] for k in path_to(seen, bad)]))
        else:
            rep.ok("R15.6", "eviction %s in %s" % (maps[n], name), "guarded by first <= last_evictable", where=g.where(n))
    # exit rows
    bad = None
    for (pi, ms) in seen:
        if P.gnode(pi) in g.exits:
            ok = ms[2] or (need_limit and ms[0] and ms[1])
            if not ok:
                bad = (pi, ms)
                break
    rid = "R15.3" if need_limit else "R15.4"
    if bad:
        rep.violation(rid, "%s|exit-without-stop-condition" % name, "PayloadCache::%s exit" % name,
                      "the operation can return while the cache may still hold evictable entries%s: the last map mutation is not "
                      "followed by a re-evaluation ending in `first > boundary`, `empty`%s"
                      % (" over the limits" if need_limit else "", " or `within both limits`" if need_limit else ""),
                      where=g.where(P.gnode(bad[0])), path=describe_path(P, [k[0] for k in path_to(seen, bad)]))
    else:
        rep.ok(rid, "PayloadCache::%s exit rows" % name,
               "every exit follows: %sfirst > boundary | cache empty" % ("within both limits | " if need_limit else ""),
               where=g.where(g.entry))
    return len(pops)


def run(ctx, rep):
    rep.rule("R15.1", "in every &mut method of PayloadCache the effects on the map and on `size` balance along every path (loop bodies separately)")
    rep.rule("R15.3", "insert returns only after: within both limits, or first > boundary, or empty (re-evaluated after the last map mutation)")
    rep.rule("R15.4", "drain_evictable returns only after: first > boundary, or empty")
    rep.rule("R15.5", "stat() reads count, size, limits and boundary under one read guard")
    rep.rule("R15.6", "every eviction is preceded by `first key <= last_evictable` established since the last map mutation")
    ms = cache_methods(ctx)
    rep.floor("R15.1", "&mut methods of PayloadCache called from outside the type", len(ms), 4)
    total_mut = 0
    for key in ms:
        total_mut += balance(ctx, rep, key)
    rep.floor("R15.1", "map mutators analysed", total_mut, 4)
    # eviction entries: the public-in-crate operations that evict on their own (not on behalf of truncate/purge/clear)
    ins = [k for k in ms if re.search(r"::insert$", k)]
    drn = [k for k in ms if re.search(r"::drain_evictable$", k)]
    if rep.expect("R15.3", "PayloadCache::insert", len(ins) == 1) and rep.expect("R15.4", "PayloadCache::drain_evictable", len(drn) == 1):
        n1 = eviction_tables(ctx, rep, ins[0], True)
        n2 = eviction_tables(ctx, rep, drn[0], False)
        rep.floor("R15.6", "eviction sites (insert, drain_evictable)", n1 + n2, 2)
    # the public drain entry: every return must have drained (a skipped drain - e.g. try_write on a busy lock - leaves evictable entries)
    pub_drain = [k for k in ctx.prog.bodies if re.search(r"RaftLog::<T>::drain_cache_evictable$", k)]
    if rep.expect("R15.4", "RaftLog::drain_cache_evictable", len(pub_drain) == 1):
        eviction_tables(ctx, rep, pub_drain[0], False)
    r15_5(ctx, rep)
    r15_8(ctx, rep)
    r15_7(ctx, rep)


def outside_mutators(ctx):
    """bodies outside `impl PayloadCache` whose OWN statements assign to, or mutably borrow, a field of a PayloadCache"""
    out = {}
    for b in ctx.facts.doc["bodies"]:
        k = b["key"]
        if "payload_cache::PayloadCache<T>" in (b.get("impl_self") or "") or re.search(r"payload_cache::PayloadCache(<T>>|::<T>)::", k):
            continue

        def pc_field(pl):
            fl = [el for el in pl.get("proj", []) if isinstance(el, dict) and "f" in el]
            for el in fl:
                if (el.get("adt") or "").endswith("payload_cache::PayloadCache"):
                    return el.get("n")
            return None
        for blk in b.get("blocks", []):
            for st in blk.get("stmts", []):
                if st["k"] != "assign":
                    continue
                f = pc_field(st["p"])
                if f:
                    out.setdefault(k, set()).add(f)
                rv = st["rv"]
                if (rv["k"] == "ref" and rv.get("mut")) or rv["k"] == "rawptr":
                    f = pc_field(rv["p"])
                    if f:
                        out.setdefault(k, set()).add(f)
    return out


def r15_7(ctx, rep):
    rep.rule("R15.7", "frame condition of R15.1: the map and the byte total of PayloadCache are assigned / mutably borrowed only inside its own "
                      "methods; any other function that touches them is put through the same balance analysis")
    outs = outside_mutators(ctx)
    if not outs:
        rep.ok("R15.7", "PayloadCache fields", "no assignment to or &mut borrow of a PayloadCache field outside its impl (%d bodies scanned)"
               % len(ctx.facts.doc["bodies"]))
    for k, fields in sorted(outs.items()):
        rep.notes.append("R15.7: %s touches PayloadCache.{%s} directly; balance analysis applied" % (short_key(k), ",".join(sorted(fields))))
        balance(ctx, _R157(rep, short_key(k)), k)


class _R157:
    """files the R15.1 balance result of an outside mutator under R15.7"""
    def __init__(self, rep, who):
        self.rep, self.who = rep, who

    def __getattr__(self, name):
        f = getattr(self.rep, name)
        if name == "violation":
            def g(rule, key, site, detail, **kw):
                return f("R15.7", "%s|%s" % (self.who, key.split("|")[-1]), self.who,
                         "PayloadCache is mutated outside its own methods and the effects do not balance: " + detail, **kw)
            return g
        if name == "ok":
            def g(rule, site, detail="", **kw):
                return f("R15.7", self.who, "mutates PayloadCache fields directly; " + detail, **kw)
            return g
        return f


def r15_8(ctx, rep):
    """R15.8: the limits and the figures keep their meaning from the configuration to the report."""
    rep.rule("R15.8", "limit wiring: where the payload cache is built, its item limit derives from Config.log_cache_max_items and its byte capacity "
                      "from Config.log_cache_capacity (not the other way round); and stat() reports each figure from the field of that meaning "
                      "(item count = len of the map, size = byte total, max_item / capacity = the two limits, boundary = last_evictable)")
    key = ctx.body_key(r"RaftLog::<T>::open$")
    g = ctx.graph(key)
    P = ctx.product(key)
    WIRE = {"max_items": "log_cache_max_items", "capacity": "log_cache_capacity"}
    n_c = 0
    for n in sorted(P.live):
        for si, st in enumerate(g.stmts(n)):
            if st["k"] == "assign" and st["rv"]["k"] == "agg" and st["rv"].get("adt", "").endswith("payload_cache::PayloadCache"):
                n_c += 1
                f = dict(zip(st["rv"]["fnames"], st["rv"]["fields"]))
                for fld, cfg in WIRE.items():
                    if fld not in f:
                        rep.unresolved("R15.8", "cache-field:%s" % fld, "PayloadCache has no field %s" % fld, where=g.where(n, si))
                        continue
                    e = strip_ids(g.prov_operand(g.inst(n), f[fld]))
                    others = [c for c in WIRE.values() if c != cfg and has_field(e, c)]
                    if has_field(e, cfg) and not others:
                        rep.ok("R15.8", "PayloadCache.%s" % fld, "<= Config.%s" % cfg, where=g.where(n, si))
                    else:
                        rep.violation("R15.8", "open|cache-limit-wiring:%s<=%s" % (fld, expr_s(e)[:50]), "PayloadCache.%s" % fld,
                                      "the cache's %s is not taken from Config.%s but from %s: the configured limits are exchanged / ignored, so "
                                      "the cache is 'over its limit' relative to a number the user never configured" % (fld, cfg, expr_s(e)[:80]),
                                      where=g.where(n, si))
    rep.floor("R15.8", "PayloadCache constructions in Op(open)", n_c, 1)
    key = ctx.body_key(r"RaftLog::<T>::stat$")
    g = ctx.graph(key)
    P = ctx.product(key)
    REPORT = {"payload_cache_item_count": lambda e: contains(e, lambda x: call_is(x, r"BTreeMap::<K, V, A>::len$") and MAP(call_arg(x, 0))),
              "payload_cache_size": lambda e: has_field(e, "size") and not has_field(e, "capacity"),
              "payload_cache_max_item": lambda e: has_field(e, "max_items"),
              "payload_cache_capacity": lambda e: has_field(e, "capacity") and not has_field(e, "size"),
              "payload_cache_last_evictable": lambda e: has_field(e, "last_evictable")}
    n_s = 0
    for n in sorted(P.live):
        for si, st in enumerate(g.stmts(n)):
            if st["k"] == "assign" and st["rv"]["k"] == "agg" and st["rv"].get("adt", "").endswith("stat::Stat"):
                n_s += 1
                f = dict(zip(st["rv"]["fnames"], st["rv"]["fields"]))
                for fld, okf in REPORT.items():
                    if fld not in f:
                        rep.unresolved("R15.8", "stat-field:%s" % fld, "Stat has no field %s" % fld, where=g.where(n, si))
                        continue
                    e = strip_ids(g.prov_operand(g.inst(n), f[fld]))
                    if okf(e):
                        rep.ok("R15.8", "Stat.%s" % fld, "<= %s" % expr_s(e)[-60:], where=g.where(n, si), nontrivial=False)
                    else:
                        rep.violation("R15.8", "stat|%s<=%s" % (fld, expr_s(e)[-50:]), "Stat.%s" % fld,
                                      "stat() reports %s from %s: the reported figure is not the quantity of that name" % (fld, expr_s(e)[:80]),
                                      where=g.where(n, si))
    rep.floor("R15.8", "Stat constructions in stat()", n_s, 1)


def r15_5(ctx, rep):
    key = ctx.body_key(r"RaftLog::<T>::stat$")
    g = ctx.graph(key)
    P = ctx.product(key)
    reads = [n for n in P.calls(r"RwLock::<T>::read$") if has_field(event_args(g, n)[0], "payload_cache")]
    if not rep.expect("R15.5", "payload_cache.read() in stat", len(reads) >= 1):
        return
    # fields of PayloadCache read in stat: each must come through the same guard
    guards = set()
    nread = 0
    for n in g.nodes:
        if n not in P.live:
            continue
        inst = g.inst(n)
        for s in g.stmts(n):
            if s["k"] != "assign":
                continue
            rv = s["rv"]
            places = []
            if rv["k"] == "use" and rv["a"]["k"] in ("copy", "move"):
                places.append(rv["a"]["p"])
            elif rv["k"] == "ref":
                places.append(rv["p"])
            for pl in places:
                fl = [e for e in pl["proj"] if isinstance(e, dict) and "f" in e and "PayloadCache" in (e.get("adt") or "")]
                if fl:
                    nread += 1
                    # identity of the guard: the RwLock::read call node in the provenance chain (with ids)
                    guards.add(_guard_of(g, inst, pl))
        t = g.term(n)
        if t["k"] == "call" and n not in g.callee_inst and cmatch(t, r"BTreeMap::<K, V, A>::len$"):
            a = g.term(n)["args"][0]
            if a["k"] in ("copy", "move"):
                e = event_args(g, n)[0]
                if MAP(e):
                    nread += 1
                    guards.add(_guard_of_operand(g, inst, a))
    rep.floor("R15.5", "PayloadCache field reads in stat()", nread, 5)
    if len(guards) == 1 and None not in guards:
        rep.ok("R15.5", "stat()", "%d cache reads, all through one RwLock::read guard at %s" % (nread, g.where(list(guards)[0])),
               where=g.where(g.entry))
    else:
        rep.violation("R15.5", "stat|cache-read-under-%d-guards" % len(guards), "stat()",
                      "cache statistics are read under %d different lock acquisitions (or outside a guard): count/size/boundary can be "
                      "mutually inconsistent" % len(guards), where=g.where(g.entry))


def _guard_of(g, inst, pl):
    """the RwLock::read/write call node a place is reached through (walks single-def pointer chain)"""
    seen = 0
    cur_inst, l = inst, pl["l"]
    while seen < 60:
        seen += 1
        body = cur_inst.body
        defs = g.prog.defs(cur_inst.key).get(l, [])
        if 1 <= l <= body["argc"] and not defs:
            if cur_inst.kind == "call":
                pt = cur_inst.parent.body["blocks"][cur_inst.call_bb]["term"]
                o = pt["args"][l - 1]
                if o["k"] in ("copy", "move"):
                    cur_inst, l = cur_inst.parent, o["p"]["l"]
                    continue
            return None
        if len(defs) != 1:
            return None
        d = defs[0]
        if d[0] == "s":
            s = body["blocks"][d[1]]["stmts"][d[2]]
            rv = s["rv"]
            if rv["k"] == "ref":
                l = rv["p"]["l"]
                continue
            if rv["k"] == "use" and rv["a"]["k"] in ("copy", "move"):
                l = rv["a"]["p"]["l"]
                continue
            return None
        t = body["blocks"][d[1]]["term"]
        if cmatch(t, r"RwLock::<T>::(read|write)$"):
            return (cur_inst.id, d[1])
        if t["args"] and t["args"][0]["k"] in ("copy", "move"):
            l = t["args"][0]["p"]["l"]
            continue
        return None
    return None


def _guard_of_operand(g, inst, o):
    return _guard_of(g, inst, o["p"])
