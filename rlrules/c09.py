"""C09 -- corruption and gaps are reported, never absorbed.  R09.1 .. R09.6."""
import re

from engine import (cmatch, cpath, expr_s, norm_learn, run_monitor, path_to, describe_path, strip_ids, OKV, ERRV, contains,
                    finals)
from helpers import *

DECODE_KEY = r"WALRecord<T> as codeq::Decode>::decode$"
ENCODE_KEY = r"WALRecord<T> as codeq::Encode>::encode$"
NEXT_RX = r"iter::Iterator>?::next$"


READERS = [(r"RaftLog::<T>::read::\{closure#\d+\}$", "read"), (r"DumpRaftLogIter<'_, T> as std::iter::Iterator>::next$", "dump-iter")]


def r09_7(ctx, rep):
    """R09.7: in both cache-miss readers, bytes fetched from a chunk file reach a non-Err item only across the Ok edge of verify_checksum."""
    rep.rule("R09.7", "in every reader that fetches an entry from a chunk file (RaftLog::read on a cache miss, the dump iterator), each path from "
                      "the file read to a yielded non-Err item crosses the Ok edge of verify_checksum: bytes from disk are never returned "
                      "unverified")
    for rx, name in READERS:
        key = ctx.body_key(rx)
        g = ctx.graph(key)
        P = ctx.product(key)
        preads = set(P.calls(r"FileExt::(read_exact_at|read_at)$|io::Read::(read|read_exact|read_to_end)$|io::Seek::seek$"))
        preads = {n for n in preads if not g.term(n).get("exp")}
        ver = set(P.calls(r"verify_checksum$"))
        if not rep.expect("R09.7", "%s: file read on the miss path" % name, len(preads) >= 1, "no file read found in the reader", where=g.where(g.entry)):
            continue

        # state: None = nothing read from disk yet, False = read and not verified, True = verified since the last read
        def step(ms, pi, qi, learn):
            n = P.gnode(pi)
            if n in preads:
                ms = "unverified"
            for o, v in norm_learn(learn):
                if origin_call(o) in ver and v in OKV and ms == "unverified":
                    ms = "verified"
            return ms
        seen = run_monitor(P, "none", step)
        bad = None
        n_ok = 0
        for (pi, ms0, ms) in finals(P, seen, step):
            if P.gnode(pi) not in g.exits:
                continue
            t0 = P.tags_after_block(pi)
            tag = t0.get((0, 0, ()))
            inner = t0.get((0, 0, ("0",)))
            is_err = (tag and tag[0] in ("Err", "None")) or (inner and inner[0] == "Err")
            if is_err:
                continue
            if ms == "unverified":
                bad = (pi, ms0)
            elif ms == "verified":
                n_ok += 1
        if bad:
            rep.violation("R09.7", "%s|disk-bytes-returned-unverified" % name, "%s: yielded item" % name,
                          "an entry read from a chunk file can be yielded without its checksum having been verified: a damaged complete record "
                          "is returned as data (or trips a later assertion) instead of failing the read", where=g.where(P.gnode(bad[0])),
                          path=describe_path(P, [k_[0] for k_ in path_to(seen, bad)]))
        else:
            rep.expect("R09.7", "%s: verified exits" % name, n_ok >= 1, "no exit state follows a verified disk read (rule would be vacuous)",
                       where=g.where(g.entry)) and \
                rep.ok("R09.7", "%s: disk read -> verify_checksum Ok -> item" % name, "%d file read site(s), %d verified exit state(s)" % (len(preads), n_ok),
                       where=g.where(sorted(preads)[0]))


def r09_1_2(ctx, rep):
    # ---- decode ----
    key = ctx.body_key(DECODE_KEY)
    g = ctx.graph(key)
    P = ctx.product(key)
    ver = P.calls(r"ChecksumReader::<C, R>::verify_checksum$|verify_checksum$")
    rep.floor("R09.1", "verify_checksum events in WALRecord::decode", len(ver), 1)
    vset = set(ver)

    def step(ms, pi, qi, learn):
        for o, v in norm_learn(learn):
            if origin_call(o) in vset and v in OKV:
                ms = True
        return ms
    seen = run_monitor(P, False, step)
    bad = None
    n_ok_exits = 0
    for (pi, ms) in seen:
        if P.gnode(pi) in g.exits and not exit_is_err(P, pi):
            n_ok_exits += 1
            if not ms:
                bad = (pi, ms)
    if bad:
        rep.violation("R09.1", "decode|ok-return-without-verify_checksum", "WALRecord::decode Ok return",
                      "a record can be returned Ok without its checksum having been verified", where=g.where(P.gnode(bad[0])),
                      path=describe_path(P, [k[0] for k in path_to(seen, bad)]))
    else:
        rep.ok("R09.1", "WALRecord::decode Ok returns", "%d Ok exit state(s), all after the Ok edge of verify_checksum" % n_ok_exits,
               where=g.where(g.entry))
    # R09.2: all reads go through the checksum reader built from the raw reader
    readers = P.calls(r"CodeqConfig::new_reader$|ChecksumReader::<C, R>::new$")
    rep.floor("R09.2", "checksum reader constructions in decode", len(readers), 1)
    n_reads = 0
    for n in P.calls(None):
        t = g.term(n)
        if t.get("exp"):
            continue
        args = [strip_ids(a) for a in event_args(g, n)]
        if n in readers:
            if args and args[0] == ("arg", 1):
                rep.ok("R09.2", "checksum reader wraps the raw reader", "", where=g.where(n), nontrivial=False)
            else:
                rep.violation("R09.2", "decode|checksum-reader-not-over-raw-reader", "new_reader",
                              "the checksum reader is not built over decode's reader argument", where=g.where(n))
            continue
        for a in args:
            if a == ("arg", 1):
                rep.violation("R09.2", "decode|raw-read:%s" % cpath(t).split("::")[-1], cpath(t),
                              "bytes are read from the raw reader, bypassing the checksum: they are not covered by the CRC",
                              where=g.where(n))
            elif call_is(a, r"new_reader$|ChecksumReader::<C, R>::new$"):
                if not cmatch(t, r"verify_checksum$"):
                    n_reads += 1
    rep.floor("R09.2", "reads through the checksum reader", n_reads, 7)
    # no read after verify_checksum
    rd = {n for n in P.calls(None) if not g.term(n).get("exp") and n not in vset and
          any(call_is(strip_ids(a), r"new_reader$|ChecksumReader::<C, R>::new$") for a in event_args(g, n))}

    def step2(ms, pi, qi, learn):
        n = P.gnode(pi)
        if n in vset:
            ms = True
        return ms
    seen2 = run_monitor(P, False, step2)
    late = next(((pi, ms) for (pi, ms) in seen2 if ms and P.gnode(pi) in rd), None)
    if late:
        rep.violation("R09.2", "decode|read-after-verify", "read after verify_checksum",
                      "bytes are consumed after the checksum was verified: they are not covered by it", where=g.where(P.gnode(late[0])))
    else:
        rep.ok("R09.2", "no read after verify_checksum", "", where=g.where(g.entry))

    # ---- encode ----
    key = ctx.body_key(ENCODE_KEY)
    g = ctx.graph(key)
    P = ctx.product(key)
    wcs = P.calls(r"write_checksum$")
    rep.floor("R09.2", "write_checksum events in WALRecord::encode", len(wcs), 1)
    writers = P.calls(r"CodeqConfig::new_writer$|ChecksumWriter::<C, W>::new$")
    n_w = 0
    wr_nodes = set()
    for n in P.calls(None):
        t = g.term(n)
        if t.get("exp") or n in writers:
            continue
        args = [strip_ids(a) for a in event_args(g, n)]
        for a in args:
            if a == ("arg", 2):
                rep.violation("R09.2", "encode|raw-write:%s" % cpath(t).split("::")[-1], cpath(t),
                              "bytes are written to the raw writer, bypassing the checksum writer", where=g.where(n))
            elif call_is(a, r"new_writer$|ChecksumWriter::<C, W>::new$"):
                if n not in wcs:
                    n_w += 1
                    wr_nodes.add(n)
    rep.floor("R09.2", "writes through the checksum writer", n_w, 7)
    wset = set(wcs)

    def step3(ms, pi, qi, learn):
        done, okd = ms
        n = P.gnode(pi)
        if n in wset:
            done = True
        for o, v in norm_learn(learn):
            if origin_call(o) in wset and v in OKV:
                okd = True
        return (done, okd)
    seen3 = run_monitor(P, (False, False), step3)
    late = next(((pi, ms) for (pi, ms) in seen3 if ms[0] and P.gnode(pi) in wr_nodes), None)
    if late:
        rep.violation("R09.2", "encode|write-after-checksum", "write after write_checksum",
                      "record bytes are written after the checksum: they are not covered by it", where=g.where(P.gnode(late[0])))
    bad = next(((pi, ms) for (pi, ms) in seen3 if P.gnode(pi) in g.exits and not exit_is_err(P, pi) and not ms[1]), None)
    if bad:
        rep.violation("R09.2", "encode|ok-return-without-checksum", "WALRecord::encode Ok return",
                      "a record can be encoded without its checksum being appended", where=g.where(P.gnode(bad[0])))
    elif not late:
        rep.ok("R09.2", "WALRecord::encode", "all %d writes go through the checksum writer and precede write_checksum" % n_w,
               where=g.where(g.entry))


class OpenModel:
    """shared monitor over Op(RaftLog::open): recovery facts at every product state"""

    def __init__(self, ctx):
        self.key = ctx.body_key(r"RaftLog::<T>::open$")
        g = self.g = ctx.graph(self.key)
        P = self.P = ctx.product(self.key)
        self.set_len = P.calls(r"fs::File::set_len$")
        self.sync_all = P.calls(r"fs::File::sync_all$")
        self.decodes = inlined_calls(g, DECODE_KEY, P.live)
        self.dec_out = [call_outcome(P, cn) for cn in self.decodes]
        # the loop over the sorted chunk ids: `next` whose element flows into the chunk file open
        self.file_opens = [n for n in P.calls(r"fs::OpenOptions::open$")
                           if not creates_file(g, n, ("create", "create_new", "truncate"))]
        self.sorts = P.calls(r"slice::<impl \[T\]>::(sort|sort_unstable|sort_by|sort_by_key)$")
        nexts = P.calls(NEXT_RX)
        self.chunk_next = []
        for n in nexts:
            e = ("okval", strip_ids(("call", cpath(g.term(n)), tuple(event_args(g, n)))))
            for fo in self.file_opens:
                # the loop that takes the chunk id lives in a function that (transitively) calls the one opening the file - not in some
                # helper that merely formats the path
                anc, i_ = set(), g.inst(fo)
                while i_ is not None:
                    anc.add(i_.id)
                    i_ = i_.parent
                if n[0] not in anc:
                    continue
                if contains(strip_ids(event_args(g, fo)[1]) if len(event_args(g, fo)) > 1 else (), lambda x: x == e):
                    if n not in self.chunk_next:
                        self.chunk_next.append(n)
        # the same loop written with a forward adaptor (`chunk_ids.iter().copied().try_for_each(|id| ..)`): the closure's entry is where the
        # next chunk id is taken, its parameter is the id, the adaptor's receiver is what is iterated
        self.chunk_entries = {}          # closure entry node -> (element expr, iterator expr)
        if not self.chunk_next:
            for n in P.calls(ITER_ADAPTORS):
                for ci in g.closure_insts.get(n, []):
                    first = 2 if ci.body["kind"] == "Closure" else 1
                    elem = ("cl_arg", ci.id, first)
                    for fo in self.file_opens:
                        if len(event_args(g, fo)) > 1 and contains(event_args(g, fo)[1], lambda x: x == elem):
                            self.chunk_entries[(ci.id, 0)] = (elem, strip_ids(event_args(g, n)[0]))
        self.applies = inlined_calls(g, r"as api::state_machine::StateMachine<.*>>::apply$", P.live)
        self.seen = None

    def new_chunk(self, pi, learn):
        """does leaving product node pi along this edge take the next chunk id?"""
        if self.chunk_entries and self.P.gnode(pi) in self.chunk_entries:
            return True
        if self.chunk_next:
            cn = set(self.chunk_next)
            for o, v in norm_learn(learn or ()):
                if origin_call(o) in cn and v in OKV:
                    return True
        return False

    def chunk_elems(self):
        out = [("okval", strip_ids(("call", cpath(self.g.term(n)), tuple(event_args(self.g, n))))) for n in self.chunk_next]
        out += [e for (e, _it) in self.chunk_entries.values()]
        return out

    def chunk_iters(self):
        return [strip_ids(event_args(self.g, n)[0]) for n in self.chunk_next] + [it for (_e, it) in self.chunk_entries.values()]

    def fact_flags(self, o, v):
        """classification of a learned (origin, value) into recovery facts"""
        g = self.g
        out = set()
        cn = origin_call(o)
        if cn is not None:
            t = g.term(cn)
            a = [strip_ids(x) for x in event_args(g, cn)]
            if cmatch(t, r"PartialEq(<.*>)?>?::(eq|ne)$") and len(a) == 2:
                kinds = [x for x in a if isinstance(x, tuple) and x and x[0] == "agg" and str(x[1]).endswith("io::ErrorKind")]
                errk = [x for x in a if call_is(x, r"io::Error::kind$")]
                if kinds and errk:
                    is_eq = cpath(t).endswith("eq")
                    truth = (v == "true") == is_eq
                    if kinds[0][2] == "UnexpectedEof" and truth:
                        out.add("eof")
                    elif kinds[0][2] == "UnexpectedEof":
                        out.add("not-eof")
                    elif truth:
                        out.add("other-kind:" + kinds[0][2])
            # a search over bytes with a `byte != 0` (or `== 0`) predicate: position/find/any say "a non-zero byte exists"
            m = re.search(r"iter::Iterator>?::(position|rposition|find|any|all)$", cpath(t))
            if m and a and isinstance(a[-1], tuple) and a[-1] and a[-1][0] == "closure":
                kind = self._byte_pred(a[-1][1])
                which = m.group(1)
                if kind == "ne0" and ((which in ("position", "rposition", "find") and v in ("Some", "Continue")) or (which == "any" and v == "true")):
                    out.add("nonzero")
                if kind == "eq0" and which == "all" and v == "false":
                    out.add("nonzero")
            if a and is_field(a[0], "truncate_incomplete_record"):
                # Option::unwrap_or(config.truncate_incomplete_record, default)
                out.add("can_trunc" if v == "true" else "no_trunc")
        e = origin_stmt_expr(g, o)
        if e is not None and e[0] == "binop":
            op, x, y = e[1], strip_ids(e[2]), strip_ids(e[3])
            if op in ("Eq", "Ne"):
                truth_eq = (v == "true") == (op == "Eq")
                if is_const(y, 0) and x[0] == "okval" and call_is(x[1], r"FileExt>?::read_at$|io::Read::read$"):
                    if truth_eq:
                        out.add("eof_reached")
                elif is_const(y, 0) and self._is_byte(o):
                    if not truth_eq:
                        out.add("nonzero")
                elif (call_is(x, r"fs::Metadata::len$") or call_is(y, r"fs::Metadata::len$")) and not is_const(x) and not is_const(y):
                    if truth_eq:
                        out.add("eof_reached")
        pe = origin_place_expr(g, o)
        if pe is not None and v == "0":
            # `match file.read_at(..)? { 0 => .. }` / `match size.checked_sub(start) { Some(0) => .. }`: the integer switch form of `== 0`
            ps = strip_ids(pe)
            while isinstance(ps, tuple) and ps and ps[0] in ("cast",):
                ps = ps[1]
            if isinstance(ps, tuple) and ps and ps[0] == "okval":
                if call_is(ps[1], r"FileExt>?::read_at$|io::Read::read$"):
                    out.add("eof_reached")
                elif call_is(ps[1], r"::checked_sub$") and contains(ps[1], lambda z: call_is(z, r"fs::Metadata::len$")):
                    out.add("eof_reached")
        if pe is not None:
            pe = strip_ids(pe)
            if isinstance(pe, tuple) and pe[0] == "var" and v == "None":
                # "no previous chunk" only if the carried value is set to `Some(..)` unconditionally by every later assignment: a value
                # that an iteration may leave / make `None` again (`prev = chunk.truncated.map(..)`) says nothing about being the first chunk
                if self._carried_always_some(pe[1], pe[2]):
                    out.add("var_none:%s_%s" % (pe[1], pe[2]))
            elif isinstance(pe, tuple) and pe[0] == "field" and isinstance(pe[1], tuple) and pe[1] and pe[1][0] == "agg" and v == "None" \
                    and field_assigned(self.g, self.P.live, pe[2]):
                # loop-carried state kept in a field of a local struct value
                out.add("var_none:%s" % pe[2])
        return out

    def _carried_always_some(self, iid, l):
        inst = next((i for i in self.g.insts if i.id == iid), None) if not isinstance(self.g.insts, dict) else self.g.insts.get(iid)
        if inst is None:
            return True
        body = inst.body
        defs = self.g.prog.defs(inst.key)

        def kinds(loc, depth=0):
            out = set()
            for d in defs.get(loc, []):
                if d[0] != "s":
                    out.add("other")
                    continue
                st = body["blocks"][d[1]]["stmts"][d[2]]
                if st["k"] != "assign" or st["p"]["proj"]:
                    out.add("other")
                    continue
                rv = st["rv"]
                if rv["k"] == "agg" and rv.get("adt") == "std::option::Option":
                    out.add(rv.get("variant"))
                elif rv["k"] == "use" and rv["a"]["k"] in ("copy", "move") and not rv["a"]["p"]["proj"] and depth < 4:
                    out |= kinds(rv["a"]["p"]["l"], depth + 1)
                else:
                    out.add("other")
            return out or {"other"}
        return kinds(l) <= {"None", "Some"}

    def _byte_pred(self, ckey):
        """'ne0' / 'eq0' when the closure is nothing but a comparison of a u8 with the constant 0"""
        b = self.g.prog.bodies.get(ckey)
        if not b or any(blk["term"]["k"] == "call" for blk in b["blocks"] if not blk.get("cleanup")):
            return None
        cmps = []
        for blk in b["blocks"]:
            for st in blk["stmts"]:
                if st["k"] == "assign" and st["rv"]["k"] == "binop" and st["rv"]["op"] in ("Ne", "Eq"):
                    x, y = st["rv"]["a"], st["rv"]["b"]
                    for p_, q_ in ((x, y), (y, x)):
                        if q_.get("k") == "const" and q_.get("int") == "0" and p_.get("k") in ("copy", "move") \
                                and b["locals"][p_["p"]["l"]]["ty"] in ("u8", "&u8"):
                            cmps.append(st["rv"]["op"])
        if len(cmps) == 1:
            return "ne0" if cmps[0] == "Ne" else "eq0"
        return None

    def _is_byte(self, o):
        n, si = o[1], o[2]
        s = self.g.stmts(n)[si]
        a = s["rv"].get("a")
        if a and a["k"] in ("copy", "move"):
            return self.g.inst(n).body["locals"][a["p"]["l"]]["ty"] in ("u8", "&u8")
        return False

    def gap_fact(self, o, v):
        """learned: previous end == this chunk's id (offset)"""
        e = origin_stmt_expr(self.g, o)
        if e is None or e[0] != "binop" or e[1] not in ("Eq", "Ne"):
            return None
        x, y = strip_ids(e[2]), strip_ids(e[3])
        truth_eq = (v == "true") == (e[1] == "Eq")

        elems = self.chunk_elems()

        def core(z):
            while isinstance(z, tuple) and z:
                if z[0] == "cast":
                    z = z[1]
                elif z[0] == "field" and z[2] in ("0",):
                    z = z[1]
                elif z[0] == "call" and re.search(r"ChunkId::offset$", str(z[1])) and z[2]:
                    z = z[2][0]
                else:
                    break
            return z

        def is_chunk_id(z):
            # the id of the chunk of this iteration (or its offset), not merely something computed from it
            return core(z) in elems or (contains(z, lambda w: w in elems) and not contains(z, lambda w: isinstance(w, tuple) and w and w[0] in ("call",)
                                                                                           and not re.search(r"ChunkId::offset$|Iterator>?::next$|enumerate$|into_iter$|iter$|Vec::new$|copied$|cloned$", str(w[1]))))

        def is_prev(z):
            # the value carried from the previous iteration: a loop variable, or a field of a local struct value that the loop assigns
            return contains(z, lambda w: isinstance(w, tuple) and w and (w[0] == "var" or (
                w[0] == "field" and isinstance(w[2], str) and isinstance(w[1], tuple) and w[1] and w[1][0] == "agg"
                and field_assigned(self.g, self.P.live, w[2]))))
        if (is_chunk_id(x) and is_prev(y)) or (is_chunk_id(y) and is_prev(x)):
            return truth_eq
        return None

    def run(self):
        if self.seen is not None:
            return self.seen
        g, P = self.g, self.P
        sl = set(self.set_len)
        cn_set = set(self.chunk_next)
        fo = set(self.file_opens)
        dec_entry = {(g.callee_inst[c].id, 0) for c in self.decodes}

        # state: (pending_err, can_trunc, eof, eof_reached, nonzero, gap_ok, trunc_done, other_kind)
        def step(ms, pi, qi, learn):
            pend, can, eof, reached, nonzero, gap, tdone, other = ms
            n = P.gnode(pi)
            if n in sl:
                pend = False
                tdone = True
            for f in self.dec_out:
                if f(pi, qi, learn) == "err":
                    pend = True
                    can = eof = reached = nonzero = other = False
            if self.new_chunk(pi, learn):
                gap = False
            for o, v in norm_learn(learn):
                fl = self.fact_flags(o, v)
                if "can_trunc" in fl:
                    can = True
                if "no_trunc" in fl:
                    can = False
                if "eof" in fl:
                    if other and not eof:
                        return None          # the kind of this same error was already found not to be UnexpectedEof: infeasible
                    eof = True
                if "not-eof" in fl:
                    if eof:
                        return None
                    other = True
                if any(x.startswith("other-kind") for x in fl):
                    other = True
                if "eof_reached" in fl:
                    reached = True
                if "nonzero" in fl:
                    nonzero = True
                if any(x.startswith("var_none") for x in fl):
                    gap = True           # no previous chunk: nothing to compare with
                gf = self.gap_fact(o, v)
                if gf is True:
                    gap = True
            return (pend, can, eof, reached, nonzero, gap, tdone, other)
        self.step = step
        self.seen = run_monitor(P, (False, False, False, False, False, False, False, False), step, max_states=6000000)
        return self.seen


def setlen_untolerated(M, n):
    """a product state at set_len node n that is outside the tolerated-error table, or None"""
    for (pi, ms) in M.run():
        if M.P.gnode(pi) != n:
            continue
        pend, can, eof, reached, nonzero, gap, tdone, other = ms
        if not (pend and can and (eof or (reached and not nonzero))):
            return (pi, ms)
    return None


def run(ctx, rep):
    rep.rule("R09.1", "every Ok return of WALRecord::decode crosses the Ok edge of verify_checksum")
    rep.rule("R09.2", "every byte of a record is read/written through the checksum reader/writer; nothing after verify/write_checksum")
    rep.rule("R09.3", "recovery truncation (File::set_len in Op(open)) only on truncate_incomplete_record() && (kind == UnexpectedEof || all trailing bytes read up to EOF are zero)")
    rep.rule("R09.4", "each chunk file is opened only after prev_end == chunk id was established (or there is no previous chunk); ids are sorted")
    rep.rule("R09.5", "a record decode error never leads to an Ok open except through the tolerated truncation")
    rep.rule("R09.6", "the recovery truncation is restricted to the newest chunk")
    r09_1_2(ctx, rep)
    r09_7(ctx, rep)
    M = OpenModel(ctx)
    g, P = M.g, M.P
    seen = M.run()
    rep.floor("R09.3", "File::set_len events in Op(open)", len(M.set_len), 1)
    rep.floor("R09.5", "WALRecord::decode calls in Op(open)", len(M.decodes), 1)
    rep.floor("R09.4", "chunk file opens in Op(open)", len(M.file_opens), 1)
    rep.floor("R09.4", "loop over chunk ids", len(M.chunk_next) + len(M.chunk_entries), 1)
    # R09.3
    for n in M.set_len:
        bad = None
        for (pi, ms) in seen:
            if P.gnode(pi) != n:
                continue
            pend, can, eof, reached, nonzero, gap, tdone, other = ms
            ok = pend and can and (eof or (reached and not nonzero))
            if not ok:
                bad = (pi, ms)
                break
        if bad:
            pend, can, eof, reached, nonzero, gap, tdone, other = bad[1]
            why = []
            if not pend:
                why.append("no decode error precedes it")
            if not can:
                why.append("truncate_incomplete_record() not established true")
            if not (eof or (reached and not nonzero)):
                why.append("neither kind == UnexpectedEof nor an all-zero tail read up to EOF is established")
            rep.violation("R09.3", "open|set_len-outside-tolerated-table", "File::set_len",
                          "a chunk can be truncated during recovery on a path where %s: a damaged (not merely torn) record is silently "
                          "discarded" % "; ".join(why), where=g.where(n),
                          path=describe_path(P, [k[0] for k in path_to(seen, bad)]))
        else:
            rep.ok("R09.3", "File::set_len", "only under truncate_incomplete_record && (UnexpectedEof | zero tail to EOF)", where=g.where(n))
    # R09.6
    for n in M.set_len:
        rep.violation("R09.6", "open|set_len-not-restricted-to-newest-chunk", "File::set_len",
                      "the recovery truncation is applied to whichever chunk hits an incomplete record; nothing establishes that the chunk "
                      "is the newest one, so a refused open (gap after it) has already cut an older chunk", where=g.where(n)) \
            if not newest_guard(M, n) else rep.ok("R09.6", "File::set_len", "guarded by a newest-chunk test", where=g.where(n))
    # R09.5
    bad = None
    for (pi, ms0, ms) in finals(P, seen, M.step):
        if P.gnode(pi) in g.exits and not exit_is_err(P, pi) and ms[0]:
            bad = (pi, ms0)
            break
    if bad:
        rep.violation("R09.5", "open|decode-error-swallowed", "Op(open) Ok return",
                      "open can succeed after a record failed to decode without the tolerated truncation: the error is dropped",
                      where=g.where(P.gnode(bad[0])), path=describe_path(P, [k[0] for k in path_to(seen, bad)]))
    else:
        rep.ok("R09.5", "Op(open) Ok returns", "never with an unhandled decode error", where=g.where(g.entry))
    dropped = dropped_results(ctx, g, P)
    for n, why in dropped:
        rep.violation("R09.5", "open|io-result-dropped:%s" % cpath(g.term(n)).split("::")[-1], cpath(g.term(n)),
                      "an io::Result produced during open is %s" % why, where=g.where(n))
    if not dropped:
        rep.ok("R09.5", "io::Result values in Op(open)", "none discarded (.ok()/unwrap_or*/unused)", where=g.where(g.entry))
    # R09.4
    for n in M.file_opens:
        bad = next(((pi, ms) for (pi, ms) in seen if P.gnode(pi) == n and not ms[5]), None)
        if bad:
            rep.violation("R09.4", "open|chunk-loaded-before-gap-check", "chunk file open",
                          "a chunk file is opened (and may be truncated / replayed) on a path that has not established "
                          "previous end == chunk id", where=g.where(n), path=describe_path(P, [k[0] for k in path_to(seen, bad)]))
        else:
            rep.ok("R09.4", "chunk file open", "dominated by the gap check (or first chunk)", where=g.where(n))
    # sorted ids
    ok_sort = False
    for n in M.sorts:
        recv = strip_ids(event_args(g, n)[0])
        for it in M.chunk_iters():
            if contains(it, lambda x: x == recv) or it == recv:
                ok_sort = True
    if ok_sort:
        rep.ok("R09.4", "chunk ids sorted before the loop", "", where=g.where(M.sorts[0]))
    else:
        rep.violation("R09.4", "open|chunk-ids-not-sorted", "chunk id vector",
                      "the chunk ids iterated by open are not sorted first: the gap check compares unrelated neighbours",
                      where=g.where(g.entry))


def newest_guard(M, n):
    """is set_len control dependent on a test that the chunk is the last element of the id vector? (accepted idioms)"""
    g, P = M.g, M.P

    def is_last_test(o, v):
        e = origin_stmt_expr(g, o)
        if e is not None and e[0] == "binop" and e[1] in ("Eq", "Ne"):
            s = expr_s(strip_ids(e))
            if re.search(r"slice::last\(|Vec::len\(|Iterator::peek|is_last", s):
                return (v == "true") == (e[1] == "Eq")
        cn = origin_call(o)
        if cn is not None:
            t = g.term(cn)
            a = " ".join(expr_s(strip_ids(x)) for x in event_args(g, cn))
            if cmatch(t, r"PartialEq(<.*>)?>?::eq$") and re.search(r"slice::last\(|Iterator::peek|Iterator::last", a):
                return v == "true"
            if cmatch(t, r"Option::<T>::is_none$") and re.search(r"Peekable.*peek|peek\(", a):
                return v == "true"
        return False

    def step(ms, pi, qi, learn):
        for o, v in norm_learn(learn):
            if is_last_test(o, v):
                ms = True
        return ms
    seen = run_monitor(P, False, step)
    states = [ms for (pi, ms) in seen if P.gnode(pi) == n]
    return bool(states) and all(states)


def dropped_results(ctx, g, P):
    """io::Result-typed call results in Op(open) that are discarded: .ok(), unwrap_or*, or never inspected"""
    out = []
    for n in P.calls(r"result::Result::<T, E>::(ok|unwrap_or|unwrap_or_default|unwrap_or_else|is_ok|is_err)$"):
        t = g.term(n)
        if t.get("exp"):
            continue
        a0 = t["args"][0]
        if a0["k"] in ("copy", "move"):
            ty = g.inst(n).body["locals"][a0["p"]["l"]]["ty"]
            if "std::io::Error" in ty:
                if cpath(t).endswith(("is_ok", "is_err")) and _referent_used_elsewhere(g.inst(n).body, a0["p"]["l"]):
                    continue        # `&self` test of a result that is consumed afterwards (returned, matched, passed on)
                out.append((n, "converted with %s (its error is dropped)" % cpath(t).split("::")[-1]))
    # results never inspected: dest local only dropped
    for n in P.calls(None):
        t = g.term(n)
        if t.get("exp") or "std::io::Error>" not in t.get("dest_ty", "") or not t.get("dest_ty", "").startswith("std::result::Result<"):
            continue
        if t["dest"]["proj"]:
            continue
        l = t["dest"]["l"]
        inst = g.inst(n)
        if l == 0:
            continue
        used = False
        for blk in inst.body["blocks"]:
            if blk["cleanup"]:
                continue
            for s in blk["stmts"]:
                if s["k"] == "assign" and _mentions(s["rv"], l):
                    used = True
            tt = blk["term"]
            if tt["k"] == "call" and any(_op_mentions(a, l) for a in tt["args"]):
                used = True
            if tt["k"] == "switch" and _op_mentions(tt["discr"], l):
                used = True
        if not used:
            out.append((n, "never inspected (`let _ = ...` / unused)"))
    return out


def _referent_used_elsewhere(body, ref_local):
    """`ref_local = &r` feeds is_ok/is_err; is r itself moved / matched / passed on anywhere in the body?"""
    refs = set()
    for blk in body["blocks"]:
        for s in blk["stmts"]:
            if s["k"] == "assign" and not s["p"]["proj"] and s["p"]["l"] == ref_local and s["rv"]["k"] == "ref" and not s["rv"]["p"]["proj"]:
                refs.add(s["rv"]["p"]["l"])
    if len(refs) != 1:
        return False
    r = next(iter(refs))
    for blk in body["blocks"]:
        if blk["cleanup"]:
            continue
        for s in blk["stmts"]:
            if s["k"] == "assign" and s["rv"]["k"] in ("use", "agg", "discr") and _mentions(s["rv"], r):
                return True
        tt = blk["term"]
        if tt["k"] == "call" and any(_op_mentions(a, r) for a in tt["args"]):
            return True
        if tt["k"] == "switch" and _op_mentions(tt["discr"], r):
            return True
    return False


def _op_mentions(o, l):
    return o["k"] in ("copy", "move") and o["p"]["l"] == l


def _mentions(rv, l):
    k = rv["k"]
    if k in ("use", "cast", "unop", "repeat"):
        return _op_mentions(rv["a"], l)
    if k in ("ref", "rawptr", "discr"):
        return rv["p"]["l"] == l
    if k == "binop":
        return _op_mentions(rv["a"], l) or _op_mentions(rv["b"], l)
    if k == "agg":
        return any(_op_mentions(f, l) for f in rv["fields"])
    return False
