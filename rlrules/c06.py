"""C06 -- rejected writes leave no trace.  R06.1 validate-before-mutate, R06.2 refusals are functions of state+argument."""
import re

from engine import (cmatch, cpath, expr_s, norm_learn, run_monitor, path_to, describe_path, strip_ids, OKV, ERRV, contains)
from helpers import *

PRED_RX = (r"cmp::(PartialOrd|PartialEq|Ord)(<.*>)?>?::(lt|le|gt|ge|eq|ne|cmp|partial_cmp)$|"
           r"cmp::impls::<impl .*>::(lt|le|gt|ge|eq|ne)$|option::Option::<T>::(is_some|is_none)$|"
           r"BTreeMap::<K, V, A>::(get|contains_key)$")
# `&mut` receivers that do not mutate observable state
PURE_MUT = r"iter::Iterator>?::(next|next_back)$|ops::DerefMut::deref_mut$|sync::.*RwLock::<T>::(write|read)$|IntoIterator>?::into_iter$"


def rooted_at_self(e):
    """does the expression denote storage reachable from the operation's `&mut self`?"""
    while isinstance(e, tuple) and e:
        if e == ("arg", 1):
            return True
        if e[0] in ("field", "idx", "as", "okval", "cast"):
            e = e[1]
            continue
        if e[0] in ("call", "ret"):
            # accessor / wrapper results derived from self (e.g. new_writer(&mut self...pending_data), index_mut(..))
            if re.search(r"new_writer$|IndexMut<I>>::index_mut$|BTreeMap::<K, V, A>::(get_mut|entry|first_entry|last_entry)$|"
                         r"Vec::<T, A>::(last_mut|first_mut|get_mut|iter_mut)$|slice::<impl \[T\]>::(last_mut|first_mut|iter_mut)$", e[1]):
                e = e[2][0] if e[2] else None
                continue
            return False
        return False
    return False


def field_path(e):
    out = []
    while isinstance(e, tuple) and e:
        if e[0] == "field":
            out.append(e[2])
            e = e[1]
        elif e[0] in ("idx", "as", "okval", "cast"):
            e = e[1]
        elif e[0] in ("call", "ret") and e[2]:
            e = e[2][0]
        else:
            break
    return tuple(reversed(out))


IGNORED_FIELDS = {"access_stat", "sent_seq"}     # counters that are not part of the observable store state


def mutations_at(g, n):
    """list of (description, field path) of writes to self-reachable state performed by block n"""
    out = []
    inst = g.inst(n)
    for si, s in enumerate(g.stmts(n)):
        if s["k"] not in ("assign", "setdiscr"):
            continue
        pr = s["p"]["proj"]
        if not pr or pr[0] != "deref":
            continue
        pe = g.prov_place(inst, s["p"])
        if rooted_at_self(pe):
            fp = field_path(pe)
            if fp and fp[0] in IGNORED_FIELDS or (len(fp) > 1 and fp[-1] in IGNORED_FIELDS):
                continue
            out.append(("assign %s" % ".".join(fp), fp, si))
    t = g.term(n)
    if t["k"] == "call" and n not in g.callee_inst and not t.get("exp"):
        if cmatch(t, PURE_MUT):
            return out
        for i, a in enumerate(t["args"]):
            if a["k"] not in ("copy", "move") or a["p"]["proj"]:
                continue
            ty = inst.body["locals"][a["p"]["l"]]["ty"]
            if not ty.startswith("&mut "):
                continue
            pe = g.prov_operand(inst, a)
            if rooted_at_self(pe):
                fp = field_path(pe)
                if fp and (fp[0] in IGNORED_FIELDS or fp[-1] in IGNORED_FIELDS):
                    continue
                out.append(("%s(&mut %s)" % (cpath(t).split("::")[-1], ".".join(fp)), fp, None))
        if cmatch(t, r"mpsc::(Sync)?Sender::<T>::(send|try_send)$"):
            out.append(("channel send", ("flush_tx",), None))
    return out


def is_refusal(g, n):
    """from_residual / Err aggregate carrying a RaftLogStateError (the sequential specification's refusals)"""
    t = g.term(n)
    if t["k"] == "call" and cmatch(t, r"ops::FromResidual") and "RaftLogStateError" in (t["callee"].get("full") or ""):
        return True
    for s in g.stmts(n):
        if s["k"] == "assign" and s["rv"]["k"] == "agg" and s["rv"].get("adt") == "std::result::Result" \
                and s["rv"].get("variant") == "Err":
            l = s["p"]["l"]
            if "RaftLogStateError" in g.inst(n).body["locals"][l]["ty"]:
                return True
    return False


# pure Option/Result combinators: the variant of their result is a function of their arguments (closures must be `Fn`)
COMB_RX = (r"option::Option::<T>::(filter|is_some_and|is_none_or|and_then|map|map_or|map_or_else|ok_or|ok_or_else|and|or|xor|zip|copied|cloned)$|"
           r"result::Result::<T, E>::(is_ok_and|is_err_and|and_then|map|map_err|ok|err)$")


def _closures_are_fn(g, args):
    """every closure among the arguments is unable to mutate what it captured: no local of its body (captures included) has a
    `&mut` / `*mut` type, so all it can do with captured state is read it"""
    ok = True

    def walk(e):
        nonlocal ok
        if not isinstance(e, tuple) or not e:
            return
        if e[0] == "closure" and isinstance(e[1], str):
            b = g.prog.bodies.get(e[1])
            if not b or any(re.search(r"&('\w+ )?mut |\*mut ", l.get("ty", "")) for l in b.get("locals", [])):
                ok = False
        for x in e:
            walk(x)
    for a in args:
        walk(a)
    return ok


def pred_key(g, origin):
    cn = origin_call(origin)
    if cn is not None:
        t = g.term(cn)
        if cmatch(t, PRED_RX) or cmatch(t, r"api::types::Types::(log_index|next_log_index)$"):
            return ("call", cpath(t).split("::")[-1], tuple(strip_ids(a) for a in event_args(g, cn)))
        if cmatch(t, COMB_RX):
            args = tuple(strip_ids(a) for a in event_args(g, cn))
            if _closures_are_fn(g, args):
                return ("call", cpath(t).split("::")[-1], args)
        return None
    e = origin_stmt_expr(g, origin)
    if e is not None and e[0] == "binop":
        return strip_ids(e)
    # a variant test of stored state (`let Some(x) = self.f.as_ref() else ..`, `match self.f { None => .. }`): the same fact as is_some()
    pe = origin_place_expr(g, origin)
    if pe is not None:
        pe = strip_ids(pe)
        if isinstance(pe, tuple) and pe and pe[0] == "field" and not contains(pe, lambda x: isinstance(x, tuple) and x and x[0] in ("call", "ret", "var", "cl_arg", "upvar")):
            return ("variant", pe)
    return None


def key_paths(k):
    """maximal field paths (from their root object) read by a predicate key"""
    out = set()

    def walk(e):
        if not isinstance(e, tuple) or not e:
            return
        if e[0] == "field":
            out.add(field_path(e))
            # continue below the access chain
            b = e
            while isinstance(b, tuple) and b and b[0] in ("field", "idx", "as", "okval", "cast"):
                if b[0] == "idx":
                    walk(b[2])
                b = b[1]
            walk(b)
            return
        for x in e:
            walk(x)
    walk(k)
    return out


def overlaps(p, q):
    n = min(len(p), len(q))
    return p[:n] == q[:n]


def run(ctx, rep):
    rep.rule("R06.1", "on every feasible path of every public write operation, no write to state reachable from &mut self "
                      "(WAL buffer, offsets, index map, cache, state, removal list, channel) precedes a refusal edge "
                      "(propagation of a RaftLogStateError); feasibility = a repeated comparison over unchanged operands "
                      "must repeat its outcome")
    rep.rule("R06.2", "refusal edges are control-dependent only on comparisons over the stored state and the arguments")
    entries = ctx.write_entries()
    rep.floor("R06.1", "public write entries", len(entries), 8)
    n_ref = 0
    for key in entries:
        op = short_key(key).split("::")[-1]
        if op == "flush":
            continue
        g = ctx.graph(key)
        P = ctx.product(key)
        live = P.live
        refusals = [n for n in g.nodes if n in live and is_refusal(g, n)]
        muts = {n: mutations_at(g, n) for n in g.nodes if n in live}
        muts = {n: m for n, m in muts.items() if m}

        # a batch operation is judged per element, whether the elements are visited by a `for` loop or by an adaptor with a closure
        batch_next = element_boundaries(g, P, lambda e: e in (("arg", 2), ("arg", 3)) or
                                        contains(e, lambda x: x in (("arg", 2), ("arg", 3))) and not contains(e, lambda x: x == ("arg", 1)))

        refusal_set = set(refusals)

        def step(ms, pi, qi, learn, g=g, muts=muts, batch_next=batch_next, refusal_set=refusal_set):
            mutated, facts = ms
            n = P_gnode(pi)
            if n in batch_next:
                # a batch operation is judged per element: what EARLIER ELEMENTS did is legitimately kept - but not what the operation
                # did before it took its first element (that is done for every call, refused or not)
                plain = isinstance(mutated, tuple) and len(mutated) == 2 and mutated[0] not in ("refused", "after")
                if ("pre-mut", True) in facts and plain:
                    facts = frozenset({("in-batch", True), ("pre-mut", True)})
                elif plain and ("in-batch", True) not in facts:
                    facts = frozenset({("in-batch", True), ("pre-mut", True)})
                else:
                    mutated = None
                    facts = frozenset({("in-batch", True)})
            m = muts.get(n)
            if isinstance(mutated, tuple) and mutated and mutated[0] == "refused":
                # after a refusal was raised: any further mutation on the way out is a trace too
                if m:
                    return ("after", mutated[1], n, m[0][0]), facts
                return (mutated, facts)
            if isinstance(mutated, tuple) and mutated and mutated[0] == "after":
                return (mutated, facts)
            if n in refusal_set and mutated is None:
                return (("refused", n), facts)
            if m:
                if mutated is None:
                    mutated = (n, m[0][0])
                written = [fp for _d, fp, _si in m]
                facts = frozenset(f for f in facts
                                  if not any(overlaps(w, r) for w in written for r in key_paths(f[0])))
            for o, v in norm_learn(learn):
                if isinstance(o, tuple) and o and o[0] == "some_iff" and v == "None":
                    # `opt.filter(pred)` gave None: opt was None or pred was false; over unchanged operands it cannot give Some later
                    ki = pred_key(g, o[1])
                    if ki is not None:
                        if (ki, "true") in facts:
                            return None
                        facts = facts | {(("filtered-out", ki), "None")}
                    continue
                k = pred_key(g, o)
                if k is None:
                    continue
                for (k2, v2) in facts:
                    if k2 == k and v2 != v:
                        return None          # infeasible: same comparison, unchanged operands, opposite outcome
                if v == "true" and (("filtered-out", k), "None") in facts:
                    return None              # the same filter answered None before (see above)
                facts = facts | {(k, v)}
            return (mutated, facts)

        P_gnode = P.gnode
        seen = run_monitor(P, (None, frozenset()), step)
        n_ref += len(refusals)
        reported = set()
        after = next(((pi, ms) for (pi, ms) in seen if isinstance(ms[0], tuple) and ms[0] and ms[0][0] == "after"), None)
        if after:
            _t, rn, mn, md = after[1][0]
            k = "%s|%s-after-refusal" % (op, md)
            rep.violation("R06.1", k, "%s: error path" % op,
                          "after a %s was refused (at %s) the error path still performs `%s` (%s): the refusal leaves a trace (e.g. an earlier, "
                          "accepted but unflushed record is cut out of the WAL buffer)" % (op, g.where(rn), md, g.where(mn)), where=g.where(mn),
                          path=describe_path(P, [k_[0] for k_ in path_to(seen, after)]))
        for n in refusals:
            bad = next(((pi, ms) for (pi, ms) in seen if P.gnode(pi) == n and ms[0] is not None
                        and not (isinstance(ms[0], tuple) and ms[0] and ms[0][0] in ("refused", "after"))), None)
            reach_any = any(P.gnode(pi) == n for (pi, ms) in seen)
            site = "refusal in %s" % fmt_chain(g, n).split(" > ")[-1]
            if bad:
                mn, md = bad[1][0]
                k = "%s|%s-before-refusal" % (op, md)
                if k in reported:
                    continue
                reported.add(k)
                rep.violation("R06.1", k, "%s: %s" % (op, site),
                              "a refused %s has already performed `%s` (%s) when the refusal is raised at %s: the rejected write "
                              "leaves a trace" % (op, md, g.where(mn), g.where(n)), where=g.where(n),
                              path=describe_path(P, [k_[0] for k_ in path_to(seen, bad)]))
            else:
                rep.ok("R06.1", "%s: %s" % (op, site),
                       "no mutation precedes it on any feasible path" if reach_any else "edge infeasible (dominated by an earlier identical check)",
                       where=g.where(n))
    rep.floor("R06.1", "refusal edges over all write entries", n_ref, 6)
