"""C03 -- crash safety: recovery yields a prefix containing everything acknowledged.
R03.1 append-only journal, R03.2 prefix-closed recovery, R03.3 only checksum-verified bytes become records,
R03.4 bytes land in the file they belong to, R03.5 = C04's acknowledgement ordering (R04.1-3, R04.7)."""
import re

from engine import (cmatch, cpath, expr_s, norm_learn, run_monitor, path_to, describe_path, strip_ids, OKV, ERRV, contains, finals)
from helpers import *
from common import rel
import c04
import c08
import c09

REWRITE_RX = (r"fs::File::set_len$|FileExt>?::(write_at|write_all_at)$|io::Seek::(seek|rewind|seek_relative)$|"
              r"fs::OpenOptions::(append|truncate)$|fs::File::create$|fs::(write|copy|rename)$")
SEND_RX = r"mpsc::SyncSender::<T>::(send|try_send)$|mpsc::Sender::<T>::send$"


def run(ctx, rep):
    rep.rule("R03.1", "chunk files are append-only: set_len/positional writes/seek/append-mode/truncate(true)/File::create occur only at the "
                      "enumerated sites (recovery truncation in Op(open); truncate(true) on the LOCK file in the lock constructor)")
    rep.rule("R03.2", "recovery is prefix-closed: after a record decode error no further record of that chunk is decoded; an error of any "
                      "io::Result-returning step of open leads to an Err return (or the tolerated truncation)")
    rep.rule("R03.3", "file bytes become records only through WALRecord::decode (checksum-gated, R09.1): inner Decode calls occur only in its cone")
    rep.rule("R03.4", "at rotation the old chunk's buffered tail is sent (or known empty) before AppendFile; AppendFile carries the new "
                      "chunk's own file; every chunk starts with a State record")
    rep.rule("R03.5", "acknowledged => written and synced: C04 rules R04.1, R04.2, R04.3, R04.7 are obligations of C03 too")

    # ---------------- R03.1 -------------------------------------------------------------
    open_key = ctx.body_key(r"RaftLog::<T>::open$")
    go = ctx.graph(open_key)
    Po = ctx.product(open_key)
    open_sites = {(go.inst(n).key, n[1]) for n in Po.calls(REWRITE_RX)}
    Mo = c09.OpenModel(ctx)
    sites = ctx.all_calls(REWRITE_RX)
    n_setlen = n_trunc = 0
    for b, bi, t in sites:
        nm = cpath(t).split("::")[-1]
        where = "%s:%d" % (rel(t["file"]), t["line"])
        if nm == "set_len" and (b["key"], bi) in open_sites:
            nodes = [n for n in Mo.set_len if (go.inst(n).key, n[1]) == (b["key"], bi)]
            if nodes and all(c09.setlen_untolerated(Mo, n) is None for n in nodes):
                n_setlen += 1
                rep.ok("R03.1", "set_len in Op(open) (recovery truncation)",
                       "enumerated exception: reachable only under the tolerated-error table (R09.3)", where=where)
                continue
        if nm in ("truncate", "append"):
            # OpenOptions::truncate(false) / append(false) are harmless
            a1 = t["args"][1] if len(t["args"]) > 1 else None
            if a1 is not None and a1["k"] == "const" and a1.get("int") == "0":
                continue
            # the lock constructor = the function building the lock value; its private helpers belong to it
            lock_bodies = sorted({lb["key"] for lb, _bi, _si, _s in ctx.all_aggregates(r"file_lock::FileLock$")})
            lock_cone = {i.key for lk in lock_bodies for i in ctx.graph(lk).insts}
            if nm == "truncate" and b["key"] in lock_cone:
                n_trunc += 1
                rep.ok("R03.1", "truncate(true) on the LOCK file", "enumerated exception (lock constructor)", where=where, nontrivial=False)
                continue
        rep.violation("R03.1", "%s|%s" % (short_key(b["key"]), nm), cpath(t),
                      "the journal is no longer append-only: `%s` can rewrite or cut bytes that recovery / acknowledged flushes rely on" % nm,
                      where=where)
    rep.floor("R03.1", "recovery set_len in Op(open)", n_setlen, 1)
    rep.floor("R03.1", "truncate(true) on LOCK", n_trunc, 1)

    # ---------------- R03.2 -------------------------------------------------------------
    M = Mo
    g, P = M.g, M.P
    seen = M.run()
    dec_entries = {(g.callee_inst[c].id, 0) for c in M.decodes}
    cn_set = set(M.chunk_next)

    def step(ms, pi, qi, learn):
        # ms: True while a decode error of the current chunk is outstanding
        n = P.gnode(pi)
        for f in M.dec_out:
            if f(pi, qi, learn) == "err":
                ms = True
        if M.new_chunk(pi, learn) or any(origin_call(o) in cn_set for o, v in norm_learn(learn)):
            ms = False
        return ms
    seen2 = run_monitor(P, False, step)
    bad = next(((pi, ms) for (pi, ms) in seen2 if ms and P.gnode(pi) in dec_entries), None)
    if bad:
        rep.violation("R03.2", "open|decode-after-error-in-same-chunk", "WALRecord::decode",
                      "after a record failed to decode, a later record of the same chunk can still be decoded and applied: recovery is "
                      "no longer a prefix", where=g.where(P.gnode(bad[0])), path=describe_path(P, [k[0] for k in path_to(seen2, bad)]))
    else:
        rep.ok("R03.2", "no decode after a decode error within one chunk", "", where=g.where(g.entry))
    # every io::Result step directly in open: Err => Err return (or tolerated truncation handled by R09.3/R09.5)
    top = [n for n in g.nodes if n[0] == 0 and n in P.live and g.term(n)["k"] == "call"
           and g.term(n).get("dest_ty", "").startswith("std::result::Result<") and "std::io::Error>" in g.term(n).get("dest_ty", "")
           and not cmatch(g.term(n), r"ErrorContextExt::context$|Result::<T, E>::map_err$")]
    rep.floor("R03.2", "io::Result steps in RaftLog::open", len(top), 4)
    outs = {n: call_outcome(P, n) for n in top}

    def step3(ms, pi, qi, learn):
        for n, f in outs.items():
            if f(pi, qi, learn) == "err":
                ms = n
        return ms
    seen3 = run_monitor(P, False, step3)
    bad = None
    for (pi, ms0, ms) in finals(P, seen3, step3):
        if ms is not False and P.gnode(pi) in g.exits and not exit_is_err(P, pi):
            bad = (pi, ms0, ms)
            break
    if bad:
        rep.violation("R03.2", "open|step-error-ignored:%s" % cpath(g.term(bad[2])).split("::")[-1], "Op(open) Ok return",
                      "open can return Ok although `%s` failed: a chunk-level error is skipped instead of reported" % cpath(g.term(bad[2])),
                      where=g.where(bad[2]), path=describe_path(P, [k[0] for k in path_to(seen3, (bad[0], bad[1]))]))
    else:
        rep.ok("R03.2", "errors of %d io::Result steps of open" % len(top), "all lead to an Err return", where=g.where(g.entry))

    # ---------------- R03.3 -------------------------------------------------------------
    dsites = ctx.all_calls(r"codeq::Decode::decode$|<.* as codeq::Decode>::decode$")
    outer = [x for x in dsites if re.search(r"WALRecord<T> as codeq::Decode>::decode$", (x[2]["callee"].get("rpath") or "")
                                            ) or "WALRecord<T>" in (x[2]["callee"].get("self_ty") or "")]
    rep.floor("R03.3", "WALRecord::decode call sites (record iterator, positional read)", len(outer), 2)
    # bodies that belong to a record decoder: the Decode impls, plus private helpers all of whose call sites lie in such bodies
    DEC_IMPL = r"(WALRecord<T>|RaftLogState<T>) as codeq::Decode>::decode$"
    inside = {b["key"] for b in ctx.facts.doc["bodies"] if re.search(DEC_IMPL, b["key"])}
    callers = {}
    for b in ctx.facts.doc["bodies"]:
        for blk in b["blocks"]:
            t_ = blk["term"]
            if not blk["cleanup"] and t_["k"] == "call":
                k_ = t_["callee"].get("rkey") or t_["callee"].get("key")
                if k_:
                    callers.setdefault(k_, set()).add(b["key"])
    changed = True
    while changed:
        changed = False
        for k_, cs in callers.items():
            if k_ not in inside and cs and cs <= inside and not ctx.facts.bodies.get(k_, {}).get("pub"):
                inside.add(k_)
                changed = True
    for b, bi, t in dsites:
        where = "%s:%d" % (rel(t["file"]), t["line"])
        if (b, bi, t) in outer:
            rep.ok("R03.3", "WALRecord::decode called from %s" % short_key(b["key"]), "", where=where, nontrivial=False)
            continue
        if b["key"] in inside:
            continue
        rep.violation("R03.3", "%s|inner-decode-outside-record-decode" % short_key(b["key"]), cpath(t),
                      "record fields are decoded from bytes outside WALRecord::decode, i.e. without the record checksum", where=where)
    # RaftLogState::decode is only reachable from WALRecord::decode
    for b, bi, t in dsites:
        rp = t["callee"].get("rpath") or ""
        if re.search(r"RaftLogState<T> as codeq::Decode>::decode$", rp) and b["key"] not in inside:
            rep.violation("R03.3", "%s|state-decode-outside-record-decode" % short_key(b["key"]), cpath(t),
                          "a RaftLogState is decoded outside a checksummed record", where="%s:%d" % (rel(t["file"]), t["line"]))

    # ---------------- R03.4 -------------------------------------------------------------
    key = ctx.body_key(WRITER_RX % "append")
    ga = ctx.graph(key)
    Pa = ctx.product(key)
    sends = Pa.calls(SEND_RX)
    tails, appends = [], []
    for n in sends:
        wr = c04.write_request_of_send(ga, n)
        if wr is None:
            continue
        if wr[2] == "Write":
            tails.append(n)
        elif wr[2] == "AppendFile":
            appends.append((n, wr))
    rep.floor("R03.4", "AppendFile sends at rotation", len(appends), 1)
    rep.floor("R03.4", "tail Write sends at rotation", len(tails), 1)
    tset = set(tails)
    empties = [n for n in Pa.calls(r"Vec::<T, A>::is_empty$")]

    def is_old_tail(e):
        e = strip_ids(e)
        return call_is(e, r"mem::take$") and contains(e, lambda x: call_is(x, r"mem::replace$"))

    def step4(ms, pi, qi, learn):
        for o, v in norm_learn(learn):
            cn = origin_call(o)
            if cn in tset and v in OKV:
                ms = True
            if cn in empties and v == "true" and is_old_tail(event_args(ga, cn)[0]):
                ms = True
            if cn is not None and v in ("None", "Some") and cmatch(ga.term(cn), r"bool(::<impl bool>)?::(then|then_some)$"):
                # `(!tail.is_empty()).then(|| request)` came out None: the condition was false, i.e. the old tail is empty
                c = strip_ids(event_args(ga, cn)[0])
                neg = isinstance(c, tuple) and c and c[0] == "unop" and c[1] == "Not"
                inner = c[2] if neg else c
                if call_is(inner, r"Vec::<T, A>::is_empty$") and is_old_tail(call_arg(inner, 0)) and ((neg and v == "None") or (not neg and v == "Some")):
                    ms = True
        return ms
    seen4 = run_monitor(Pa, False, step4)
    for n, wr in appends:
        bad = next(((pi, ms) for (pi, ms) in seen4 if Pa.gnode(pi) == n and not ms), None)
        if bad:
            rep.violation("R03.4", "append|AppendFile-before-old-tail", "send(AppendFile)",
                          "the worker can be switched to the new chunk file before the old chunk's buffered tail was handed over: those bytes "
                          "would be written into the wrong file", where=ga.where(n),
                          path=describe_path(Pa, [k[0] for k in path_to(seen4, bad)]))
        else:
            rep.ok("R03.4", "send(AppendFile)", "after the old tail was sent Ok (or is empty)", where=ga.where(n))
        # the file entry's file is the new chunk's own file: `self.open.chunk.f`, read after self.open was replaced by the
        # chunk just created
        fe = wr[3][0] if wr[3] else None
        creators = chunk_creators(ctx)

        def from_creator(x):
            return contains(x, lambda y: isinstance(y, tuple) and y and y[0] in ("ret", "call") and
                            (y[1] in creators or re.search(r"fs::OpenOptions::open$", str(y[1])))) and \
                not contains(x, lambda y: call_is(y, r"mem::(replace|take|swap)$"))
        ffield = None
        if fe is not None and fe[0] == "agg":
            fn = [f["name"] for f in ctx.facts.adts["raft_log::wal::flush_worker::FileEntry"]["variants"][0]["fields"]]
            ffield = dict(zip(fn, fe[3])).get("f")
        okf = False
        if ffield is not None and from_creator(ffield):
            okf = True
        elif ffield is not None and is_field(strip_ids(ffield), "f") and is_field(strip_ids(ffield)[1], "chunk") \
                and is_field(strip_ids(ffield)[1][1], "open"):
            repl = [m for m in Pa.calls(r"mem::replace$") if is_field(strip_ids(event_args(ga, m)[0]), "open")
                    and from_creator(event_args(ga, m)[1])]
            clones = [m for m in Pa.calls(r"clone::Clone>?::clone$") if strip_ids(event_args(ga, m)[0]) == strip_ids(ffield)]
            rset = set(repl)

            def step5(ms, pi, qi, learn):
                return ms or (Pa.gnode(pi) in rset)
            seen5 = run_monitor(Pa, False, step5)
            okf = bool(repl) and bool(clones) and not any(Pa.gnode(pi) in clones and not ms for (pi, ms) in seen5)
        if okf:
            rep.ok("R03.4", "AppendFile file", "is the file of the chunk just created (read after self.open was replaced by it)", where=ga.where(n))
        else:
            rep.violation("R03.4", "append|AppendFile-wrong-file", "AppendFile payload",
                          "the file handed to the worker is not the newly created chunk's file: %s" % expr_s(strip_ids(ffield))[:100],
                          where=ga.where(n))
    # tail data is the OLD chunk's buffer
    for n in tails:
        wr = c04.write_request_of_send(ga, n)
        inner = wr[3][0]
        names = [f["name"] for f in ctx.facts.adts["raft_log::wal::flush_request::WriteRequest"]["variants"][0]["fields"]]
        f = dict(zip(names, inner[3]))
        if is_old_tail(f.get("data")):
            rep.ok("R03.4", "rotation tail Write", "data = mem::take(pending_data of the replaced chunk)", where=ga.where(n))
        else:
            rep.violation("R03.4", "append|rotation-tail-data", "rotation tail Write",
                          "the tail handed over at rotation is not the replaced chunk's pending buffer: %s" % expr_s(strip_ids(f.get("data")))[:90],
                          where=ga.where(n))
    c08.r08_6(ctx, _Alias(rep, "R08.6", "R03.4"))

    # ---------------- R03.5 -------------------------------------------------------------
    sub = _Filter(rep, keep=("R04.1", "R04.2", "R04.3", "R04.5", "R04.7"), rename="R03.5/")
    c04.run(ctx, sub)


class _Alias:
    """report adapter: files another module's rule under this property's rule id"""

    def __init__(self, rep, frm, to):
        self.rep, self.frm, self.to = rep, frm, to

    def __getattr__(self, name):
        f = getattr(self.rep, name)
        if name in ("ok", "violation", "unresolved", "floor", "expect"):
            def g(rule, *a, **kw):
                return f(self.to if rule == self.frm else rule, *a, **kw)
            return g
        return f


class _Filter:
    def __init__(self, rep, keep, rename, skip_known=False, key_rx=None):
        self.rep, self.keep, self.rename = rep, keep, rename
        self.key_rx = key_rx or {}       # rule -> regex: only violations whose key matches are imported (a sub-clause of the rule)
        self.known = set()
        if skip_known:
            # a recorded finding is printed under its own property only; anything ELSE the imported rule reports is shown here too
            import json as _json
            import os as _os
            try:
                kf = _json.load(open(_os.path.join(_os.path.dirname(_os.path.dirname(_os.path.abspath(__file__))), "known_findings.json")))
                self.known = {k["key"] for k in kf.get("known", [])}
            except Exception:
                self.known = set()

    def rule(self, rid, text):
        if rid in self.keep:
            self.rep.rule(self.rename + rid, text)

    def __getattr__(self, name):
        f = getattr(self.rep, name)
        if name in ("ok", "violation", "unresolved", "floor", "expect"):
            def g(rule, *a, **kw):
                if rule in self.keep:
                    if name == "violation" and a and (a[0] in self.known or ("%s|%s" % (rule, a[0])) in self.known):
                        return True
                    if name in ("violation", "unresolved") and a and self.key_rx.get(rule) and not re.search(self.key_rx[rule], a[0]):
                        return True
                    return f(self.rename + rule, *a, **kw)
                if name == "expect":
                    return bool(a[1]) if len(a) > 1 else True      # keep control flow of the imported module intact
                return True
            return g
        return f
