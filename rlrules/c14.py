"""C14 -- dropping the store quiesces it.
R14.1 every directory-mutating effect that can be ordered after the last acknowledgement needs either a drop that joins the worker or a
worker that co-owns the directory lock; R14.2 no Drop impl hands work to the worker / mutates files without joining it."""
import re

from engine import (cmatch, cpath, expr_s, norm_learn, run_monitor, path_to, describe_path, strip_ids, OKV, ERRV, contains, finals)
from helpers import *
from common import rel
import c04

SEND_RX = r"mpsc::SyncSender::<T>::(send|try_send)$|mpsc::Sender::<T>::send$"
FS_MUT = (r"fs::(remove_file|remove_dir|remove_dir_all|rename|write|create_dir|create_dir_all)$|fs::File::(set_len|create)$|"
          r"io::Write::(write|write_all)$|io::impls::<impl std::io::Write for .*>::(write|write_all)$|FileExt>?::(write_at|write_all_at)$")
JOIN_RX = r"thread::JoinHandle::<T>::join$|thread::ScopedJoinHandle"


def r14_4(ctx, rep):
    """R14.4: the worker serves its channel in order across request kinds."""
    rep.rule("R14.4", "the worker takes no further request from its channel while a received request that is not a Write is still unhandled "
                      "(it is handed, whole, to the function that executes non-Write requests before the next recv / try_iter().next()): a "
                      "Write queued behind a RemoveChunks / AppendFile is never written or acknowledged ahead of it, so 'the last flush "
                      "was acknowledged' implies every earlier request has been executed")
    wk, _, _ = ctx.worker_entry()
    g = ctx.graph(wk)
    P = ctx.product(wk)

    def is_recv(n):
        t = g.term(n)
        if cmatch(t, r"mpsc::Receiver::<T>::(recv|try_recv|recv_timeout)$"):
            return True
        if cmatch(t, r"iter::Iterator>?::next$"):
            a = event_args(g, n)
            return bool(a) and contains(strip_ids(a[0]), lambda x: call_is(x, r"mpsc::Receiver::<T>::(try_iter|iter)$"))
        return False
    recvs = {n for n in P.calls(None) if is_recv(n)}
    # handler instances: inlined crate-local functions that take a whole request by value
    handlers = set()
    for n, sub in g.callee_inst.items():
        b = sub.body
        tys = [l.get("ty", "") for l in b.get("locals", [])[1:1 + b.get("argc", 0)]]
        def carries_request(t):
            if t.startswith("&"):
                return False
            if re.search(r"(^|[^&\w:])(\w+::)*WorkerRequest<", t):
                return True
            adt = ctx.facts.adts.get(re.sub(r"<.*$", "", t))
            return bool(adt) and not adt["is_enum"] and any(re.search(r"(^|[^&\w:])(\w+::)*WorkerRequest<", f["ty"])
                                                           for f in adt["variants"][0]["fields"])
        if any(carries_request(t) for t in tys):
            handlers.add(n)
    handler_inst = {g.callee_inst[n].id for n in handlers}
    if not rep.expect("R14.4", "receive sites and the non-Write handler in the worker", len(recvs) >= 1 and len(handlers) >= 1,
                      "found %d receive sites, %d handler call(s)" % (len(recvs), len(handlers)), where=g.where(g.entry)):
        return

    def inside_handler(n):
        i = g.inst(n)
        while i is not None:
            if i.id in handler_inst:
                return True
            i = i.parent
        return False
    # classification sites: switches on the `.req` of a received item, outside the handler; each belongs to the receive it looks at
    cls = {}
    cls_recv = {}

    def _subterms(e):
        yield e
        if isinstance(e, tuple):
            for x in e:
                if isinstance(x, tuple):
                    yield from _subterms(x)
    for pi, es in P.succ.items():
        n = P.gnode(pi)
        if inside_handler(n):
            continue
        for qi, learn in es:
            for o, v in norm_learn(learn or []):
                if isinstance(o, tuple) and o and o[0] == "place":
                    e = origin_place_expr(g, o)
                    if e is not None and is_field(strip_ids(e), "req"):
                        src = [x[3] for x in _subterms(e) if isinstance(x, tuple) and len(x) > 3 and x[0] == "call" and x[3] in recvs]
                        if src:
                            cls.setdefault(n, o)
                            cls_recv.setdefault(n, src[0])

    def step(ms, pi, qi, learn):
        n = P.gnode(pi)
        if n in handlers:
            ms = "handled"       # the received item has been executed: looking at it again (drop elaboration, logging) owes nothing
        if n in recvs:
            if ms == "owed":
                return "VIOL"
            ms = ("clear", n)
        if ms == "VIOL":
            return ms
        if n in cls and ms == ("clear", cls_recv.get(n)):
            # the FIRST look at the kind of the item just received decides; later looks at the same item (drop elaboration after it was
            # moved out, logging) neither owe nor clear anything
            got = [v for o, v in norm_learn(learn or []) if o == cls[n]]
            ms = "owed" if "Write" not in got else "write"
        return ms
    seen = run_monitor(P, "clear", step)
    bad = next(((pi, ms) for (pi, ms) in seen if ms == "VIOL"), None)
    if bad:
        rep.violation("R14.4", "worker|request-overtaken-by-later-requests", "worker request loop",
                      "after receiving a request that is not a Write the worker goes on taking requests from the channel before executing it: "
                      "later Writes are written and acknowledged first, so an acknowledged last flush no longer implies that earlier removals "
                      "/ file switches have been done", where=g.where(P.gnode(bad[0])),
                      path=describe_path(P, [k_[0] for k_ in path_to(seen, bad)]))
    else:
        rep.ok("R14.4", "worker request loop", "%d receive site(s), %d classification site(s), %d handler call(s): a non-Write request is executed "
               "before the next receive on every path" % (len(recvs), len(cls), len(handlers)), where=g.where(g.entry))


def run(ctx, rep):
    rep.rule("R14.1", "a directory-mutating effect of the worker that can follow the acknowledgement of the last flush (a request sent after the "
                      "callback-carrying one; a file mutation after Callback::send in the same worker iteration) is allowed only if dropping "
                      "the store joins the worker or the worker co-owns the directory lock")
    rep.rule("R14.2", "no Drop impl sends a request to the worker, spawns, or mutates files (other than releasing the lock) unless it joins the worker")
    # ---- disjunct B: some Drop joins the worker ----
    drops = [b for b in ctx.facts.doc["bodies"] if re.search(r" as std::ops::Drop>::drop$", b["key"])]
    joins = ctx.all_calls(JOIN_RX)
    joins_in_drop = []
    for b, bi, t in joins:
        if any(b["key"] == d["key"] or b["key"].startswith(d["key"]) for d in drops):
            joins_in_drop.append(b["key"])
    # reachable through inlining: build each Drop's graph
    drop_joins = {}
    for d in drops:
        g = ctx.graph(d["key"])
        P = ctx.product(d["key"])
        drop_joins[d["key"]] = bool(P.calls(JOIN_RX))
    B = any(drop_joins.values())
    # ---- disjunct C: the worker co-owns the lock ----
    fw = ctx.facts.adts.get("raft_log::wal::flush_worker::FlushWorker")
    C = False
    if rep.expect("R14.1", "struct FlushWorker", fw is not None):
        C = any("FileLock" in f["ty"] for f in fw["variants"][0]["fields"])
    rep.ok("R14.1", "facts", "drop joins the worker: %s; worker co-owns the directory lock: %s; Drop impls in the crate: %s"
           % (B, C, [short_key(d["key"]) for d in drops]), nontrivial=False)
    rep.floor("R14.1", "Drop impls analysed", len(drops), 1)

    # ---- post-ack effects in Op(flush) ----
    key = ctx.body_key(WRITER_RX % "flush")
    g = ctx.graph(key)
    P = ctx.product(key)
    sends = P.calls(SEND_RX)
    cb_sends = set()
    kinds = {}
    for n in sends:
        wr = c04.write_request_of_send(g, n)
        kinds[n] = wr[2] if wr else "?"
        if wr and wr[2] == "Write":
            inner = wr[3][0]
            names = [f["name"] for f in ctx.facts.adts["raft_log::wal::flush_request::WriteRequest"]["variants"][0]["fields"]]
            f = dict(zip(names, inner[3]))
            if strip_ids(f.get("callback")) == ("arg", 2):
                cb_sends.add(n)
    rep.floor("R14.1", "callback-carrying send in Op(flush)", len(cb_sends), 1)

    def step(ms, pi, qi, learn):
        return ms or (P.gnode(pi) in cb_sends)
    seen = run_monitor(P, False, step)
    effects = []
    for n in sends:
        if n in cb_sends:
            continue
        if any(P.gnode(pi) == n and ms for (pi, ms) in seen):
            effects.append(("flush|%s-sent-after-the-acknowledged-request" % kinds[n], g.where(n),
                            "flush queues a %s request after the request that carries the caller's callback: the worker executes it after "
                            "the acknowledgement, possibly after the caller dropped the store and reopened the directory" % kinds[n]))
    # ---- post-ack effects in the worker ----
    wk, _, _ = ctx.worker_entry()
    gw = ctx.graph(wk)
    Pw = ctx.product(wk)
    acks = set(Pw.calls(r"callback::Callback::send$"))
    recvs = set(Pw.calls(r"mpsc::Receiver::<T>::recv$"))
    muts = Pw.calls(FS_MUT)
    rep.floor("R14.1", "file mutating events in the worker", len(muts), 2)

    def stepw(ms, pi, qi, learn):
        n = Pw.gnode(pi)
        if n in recvs:
            return False
        if n in acks:
            return True
        return ms
    seenw = run_monitor(Pw, False, stepw)
    for n in muts:
        if any(Pw.gnode(pi) == n and ms for (pi, ms) in seenw):
            effects.append(("worker|%s-after-ack-in-same-iteration" % cpath(gw.term(n)).split("::")[-1], gw.where(n),
                            "the worker performs `%s` after it has sent flush callbacks in the same batch iteration: the caller may already have "
                            "dropped the store and another instance may own the directory" % cpath(gw.term(n))))
    if B or C:
        rep.ok("R14.1", "post-acknowledgement effects", "%d effect(s), covered by %s" % (len(effects), "join-on-drop" if B else "lock co-ownership"))
    else:
        for k, where, msg in effects:
            rep.violation("R14.1", k, "post-acknowledgement effect",
                          msg + "; nothing joins the detached worker on drop and the worker does not hold the directory lock", where=where)
        if not effects:
            rep.ok("R14.1", "post-acknowledgement effects", "none")

    # ---------------- R14.5 -------------------------------------------------------------
    rep.rule("R14.5", "dropping the store always returns: no Drop impl polls for progress of the worker (sleep / yield / spin on an atomic / park / "
                      "blocking recv): the worker ends on any I/O error without publishing progress, and a drop that waits for it never "
                      "returns - the directory lock, released only after the Drop body, is then held for the life of the process")
    WAIT_RX = (r"thread::sleep$|thread::yield_now$|hint::spin_loop$|thread::park(_timeout)?$|sync::atomic::Atomic\w*::(<\w+>::)?(load|compare_exchange\w*|swap|fetch_\w+)$|"
               r"mpsc::Receiver::<T>::(recv|recv_timeout|iter)$|Condvar::wait\w*$|Barrier::wait$")
    n_drop_calls = 0
    polled = False
    for d in drops:
        gd = ctx.graph(d["key"])
        Pd = ctx.product(d["key"])
        n_drop_calls += len(Pd.calls(None))
        seen_k = set()
        for n in Pd.calls(WAIT_RX):
            nm = cpath(gd.term(n)).split("::")[-1]
            k = "%s|drop-waits-for-worker:%s" % (short_key(d["key"]).split(" as ")[0].strip("<").split("::")[-1], nm)
            if k in seen_k:
                continue
            seen_k.add(k)
            polled = True
            rep.violation("R14.5", k, short_key(d["key"]),
                          "a Drop impl waits (`%s`) for something only the worker thread can make true; when the worker has already ended "
                          "(any failed write / unlink ends it) the drop never returns and the directory stays locked" % cpath(gd.term(n)),
                          where=gd.where(n))
    if not polled:
        rep.ok("R14.5", "Drop impls", "%d Drop impl(s), %d call site(s) in their cones: none polls or blocks on the worker" % (len(drops), n_drop_calls))

    # ---------------- R14.3 -------------------------------------------------------------
    rep.rule("R14.3", "once the worker has observed that its channel is closed (the store was dropped) it performs no file mutation before quitting")
    # only a failed blocking recv() means "closed": try_recv / recv_timeout also fail when the queue is merely empty
    recv_list = list(recvs)

    def stepq(ms, pi, qi, learn):
        for o, v in norm_learn(learn):
            if origin_call(o) in recv_list and v in ERRV:
                ms = True
        return ms
    seenq = run_monitor(Pw, False, stepq)
    late = [n for n in muts if any(Pw.gnode(pi) == n and ms for (pi, ms) in seenq)]
    for n in late:
        rep.violation("R14.3", "worker|%s-after-channel-closed" % cpath(gw.term(n)).split("::")[-1], cpath(gw.term(n)),
                      "after the store was dropped (channel closed) the detached worker still mutates the directory (`%s`): this happens after "
                      "the directory lock was released, possibly while another instance owns the directory" % cpath(gw.term(n)), where=gw.where(n))
    if not late:
        rep.ok("R14.3", "worker quit path", "no file mutation after the channel was found closed", where=gw.where(gw.entry))

    # ---------------- R14.4 -------------------------------------------------------------
    r14_4(ctx, rep)

    # ---------------- R14.2 -------------------------------------------------------------
    for d in drops:
        gd = ctx.graph(d["key"])
        Pd = ctx.product(d["key"])
        bad = Pd.calls(SEND_RX) + Pd.calls(FS_MUT) + Pd.calls(r"thread::(Builder::)?spawn$")
        bad = [n for n in bad if not gd.term(n).get("exp")]
        nm = short_key(d["key"])
        if bad and not drop_joins[d["key"]]:
            for n in bad:
                rep.violation("R14.2", "%s|%s" % (nm, cpath(gd.term(n)).split("::")[-1]), nm,
                              "dropping the store hands new work to the detached worker (or mutates files) without waiting for it: the directory "
                              "keeps changing after drop() returned and the lock is released", where=gd.where(n))
        else:
            rep.ok("R14.2", nm, "no request to the worker / file mutation on drop" if not bad else "joins the worker", where=gd.where(gd.entry))
