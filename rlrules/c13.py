"""C13 -- a directory is owned by at most one store or dump at a time.  R13.1 .. R13.4."""
import re

from engine import (cmatch, cpath, expr_s, norm_learn, run_monitor, path_to, describe_path, strip_ids, OKV, ERRV, contains, finals)
from helpers import *
from common import rel

LOCK_EVENT = r"fs2::FileExt>?::(try_lock_exclusive|lock_exclusive)$"
ANY_LOCK_EVENT = r"fs2::FileExt>?::(try_lock_exclusive|lock_exclusive|try_lock_shared|lock_shared)$|File::(try_lock|lock|try_lock_shared|lock_shared)$"
UNLOCK_EVENT = r"fs2::FileExt>?::unlock$|fs::File::unlock$"
FS_EVENT = (r"fs::OpenOptions::open$|fs::File::(open|create|create_new|set_len|sync_all|sync_data|metadata|set_permissions)$|"
            r"fs::(read_dir|remove_file|remove_dir|remove_dir_all|rename|create_dir|create_dir_all|write|read|read_to_string|copy|metadata)$|"
            r"io::Write::(write|write_all)$|io::impls::<impl std::io::Write for .*>::(write|write_all)$|FileExt>?::(read_at|read_exact_at|write_at|write_all_at)$|"
            r"io::BufReader::<R>::(new|with_capacity)$|thread::Builder::spawn$|thread::spawn$")


def lock_constructor(ctx, rep):
    """the function that builds the lock value (the struct holding the locked file); every flock call of the crate must lie in its
    inlined cone (itself or private helpers it calls)"""
    aggs = ctx.all_aggregates(r"file_lock::FileLock$")
    bodies = sorted({b["key"] for b, bi, si, s in aggs})
    if len(bodies) > 1:
        # several functions build a lock value: the constructor is the one that takes the lock; the others make lock values without
        # locking (reported by R13.4: FileLock{..} outside the lock constructor)
        locking = [k for k in bodies if ctx.product(k).calls(ANY_LOCK_EVENT)]
        if len(locking) == 1:
            bodies = locking
    if not rep.expect("R13.3", "lock constructor", len(bodies) == 1,
                      "expected exactly one function building the lock value, found %s" % bodies):
        return None
    L = bodies[0]
    cone = {i.key for i in ctx.graph(L).insts}
    for b, bi, t in ctx.all_calls(ANY_LOCK_EVENT):
        if b["key"] not in cone:
            rep.violation("R13.3", "lock|flock-outside-the-lock-constructor:%s" % short_key(b["key"]), cpath(t),
                          "an advisory lock is taken outside the function that builds the lock value: the lock is not tied to an owner",
                          where="%s:%d" % (rel(t["file"]), t["line"]))
    return L


def _callers_of(ctx, key):
    out = set()
    for b in ctx.facts.doc["bodies"]:
        if b["key"].startswith(("testing::", "<testing::")):
            continue
        for blk in b["blocks"]:
            t = blk["term"]
            if not blk.get("cleanup") and t["k"] == "call" and (t.get("callee") or {}).get("rkey") == key:
                out.add(b["key"])
    return out


def run(ctx, rep):
    rep.rule("R13.1", "in RaftLog::open and Dump::new every file-system event (open, read, write, truncate, sync, unlink, read_dir, thread spawn) "
                      "outside the lock constructor is preceded by the Ok edge of the lock constructor")
    rep.rule("R13.2", "the lock value is moved into the returned owner on every Ok path; FileLock is not Clone, its file is never cloned; "
                      "the only unlock is in its Drop")
    rep.rule("R13.3", "every Ok return of the lock constructor follows the Ok edge of an exclusive non-shared flock; its Err edge returns Err")
    rep.rule("R13.4", "RaftLog{..}, Dump{..}, FileLock{..} are constructed only in open / Dump::new / the lock constructor; lock fields are private")
    L = lock_constructor(ctx, rep)
    if L is None:
        return
    # ---- R13.3 ----
    g = ctx.graph(L)
    P = ctx.product(L)
    locks = P.calls(ANY_LOCK_EVENT)
    excl = [n for n in locks if cmatch(g.term(n), LOCK_EVENT)]
    for n in locks:
        if n not in excl:
            rep.violation("R13.3", "lock|non-exclusive:%s" % cpath(g.term(n)).split("::")[-1], cpath(g.term(n)),
                          "the directory lock is not an exclusive lock: two owners can hold it at once", where=g.where(n))
    rep.floor("R13.3", "exclusive lock events in the lock constructor", len(excl), 1)
    eset = set(excl)

    def step(ms, pi, qi, learn):
        for o, v in norm_learn(learn):
            if origin_call(o) in eset and v in OKV:
                ms = True
        return ms
    seen = run_monitor(P, False, step)
    bad = next(((pi, ms) for (pi, ms) in seen if P.gnode(pi) in g.exits and not exit_is_err(P, pi) and not ms), None)
    if bad:
        rep.violation("R13.3", "lock|ok-return-without-lock", "lock constructor Ok return",
                      "the lock constructor can return Ok without holding the exclusive lock (a failed or skipped flock is ignored)",
                      where=g.where(P.gnode(bad[0])), path=describe_path(P, [k[0] for k in path_to(seen, bad)]))
    else:
        rep.ok("R13.3", "lock constructor Ok returns", "all follow the Ok edge of try_lock_exclusive", where=g.where(g.entry))
    # the locked file is the one stored in the returned value
    aggs = ctx.all_aggregates(r"file_lock::FileLock$")
    for b, bi, si, s in aggs:
        where = "%s:%d" % (rel(s["file"]), s["line"])
        if b["key"] != L and not b["key"].startswith(L + "::{closure"):
            rep.violation("R13.4", "FileLock-constructed-in:%s" % short_key(b["key"]), "FileLock{..}",
                          "a FileLock value is built outside the lock constructor (without taking the lock)", where=where)
        else:
            rep.ok("R13.4", "FileLock{..} only in the lock constructor", "", where=where, nontrivial=False)
    rep.floor("R13.4", "FileLock{..} aggregates", len(aggs), 1)
    for n in P.live:
        for si, s in enumerate(g.stmts(n)):
            if s["k"] == "assign" and s["rv"]["k"] == "agg" and s["rv"].get("adt", "").endswith("file_lock::FileLock"):
                fields = dict(zip(s["rv"]["fnames"], s["rv"]["fields"]))
                fe = strip_ids(g.prov_operand(g.inst(n), fields.get("f"))) if "f" in fields else None
                locked = [strip_ids(event_args(g, x)[0]) for x in excl]
                if fe is not None and fe in locked:
                    rep.ok("R13.3", "stored file is the locked file", expr_s(fe)[:70], where=g.where(n, si))
                else:
                    rep.violation("R13.3", "lock|stored-file-is-not-the-locked-file", "FileLock{f}",
                                  "the file kept in the FileLock is not the descriptor that was locked (the lock dies with a temporary)",
                                  where=g.where(n, si))

    # ---- R13.1 / R13.2 on the owners ----
    owners = [(ctx.body_key(r"RaftLog::<T>::open$"), r"raft_log::raft_log::RaftLog$", "RaftLog"),
              (ctx.body_key(r"dump::Dump::<T>::new$"), r"raft_log::dump::Dump$", "Dump")]
    for key, adt_rx, nm in owners:
        g = ctx.graph(key)
        P = ctx.product(key)
        lcalls = [n for n, sub in g.callee_inst.items() if sub.key == L and n in P.live]
        if not rep.expect("R13.1", "%s: call of the lock constructor" % nm, len(lcalls) >= 1,
                          "%s does not call the lock constructor" % short_key(key)):
            continue
        outs = [call_outcome(P, cn) for cn in lcalls]
        lock_insts = set()
        for cn in lcalls:
            root = g.callee_inst[cn]
            stack = [root]
            while stack:
                i = stack.pop()
                lock_insts.add(i.id)
                stack.extend(x for x in g.insts if x.parent is i)
        fs_nodes = [n for n in P.calls(FS_EVENT) if n[0] not in lock_insts]
        rep.floor("R13.1", "%s: file-system events outside the lock constructor" % nm, len(fs_nodes), 1 if nm == "Dump" else 8) \
            if nm == "RaftLog" else None
        fsset = set(fs_nodes)

        def step2(ms, pi, qi, learn, outs=outs):
            for f in outs:
                if f(pi, qi, learn) == "ok":
                    ms = True
            return ms
        seen = run_monitor(P, False, step2)
        n_bad = 0
        for n in fs_nodes:
            bad = next(((pi, ms) for (pi, ms) in seen if P.gnode(pi) == n and not ms), None)
            if bad:
                n_bad += 1
                rep.violation("R13.1", "%s|%s-before-lock" % (nm, cpath(g.term(n)).split("::")[-1]),
                              "%s: %s" % (nm, cpath(g.term(n))),
                              "the directory is touched before the exclusive lock is held: a second opener can read/modify chunk files "
                              "while the first owner is active", where=g.where(n),
                              path=describe_path(P, [k[0] for k in path_to(seen, bad)]))
        if not n_bad:
            rep.ok("R13.1", "%s: %d file-system events" % (nm, len(fs_nodes)), "all dominated by the Ok edge of the lock constructor",
                   where=g.where(g.entry))
        # R13.2: lock moved into the returned aggregate
        found = False
        for n in P.live:
            for si, s in enumerate(g.stmts(n)):
                if s["k"] == "assign" and s["rv"]["k"] == "agg" and re.search(adt_rx, s["rv"].get("adt", "")):
                    found = True
                    fields = dict(zip(s["rv"]["fnames"], s["rv"]["fields"]))
                    lockf = [fn for fn in fields if "lock" in fn]
                    okf = False
                    for fn in lockf:
                        e = g.prov_operand(g.inst(n), fields[fn])
                        if contains(e, lambda x: isinstance(x, tuple) and x and x[0] == "agg" and str(x[1]).endswith("file_lock::FileLock")) \
                                or contains(e, lambda x: isinstance(x, tuple) and x and x[0] == "ret" and x[1] == L):
                            okf = True
                    if okf:
                        rep.ok("R13.2", "%s{..} owns the lock" % nm, "lock field holds the lock constructor's result", where=g.where(n, si))
                    else:
                        rep.violation("R13.2", "%s|owner-does-not-hold-lock" % nm, "%s{..}" % nm,
                                      "the returned %s does not hold the FileLock acquired at open: the lock is released while the owner lives" % nm,
                                      where=g.where(n, si))
        rep.expect("R13.2", "%s aggregate in %s" % (nm, short_key(key)), found)
        # R13.4 constructor sites
        for b, bi, si, s in ctx.all_aggregates(adt_rx):
            where = "%s:%d" % (rel(s["file"]), s["line"])
            if b["key"] != key and not b["key"].startswith(key + "::{closure"):
                rep.violation("R13.4", "%s-constructed-in:%s" % (nm, short_key(b["key"])), "%s{..}" % nm,
                              "a %s value is built outside its locking constructor" % nm, where=where)
            else:
                rep.ok("R13.4", "%s{..} only in %s" % (nm, short_key(key)), "", where=where, nontrivial=False)
    # field visibility
    for adt, fld in (("raft_log::raft_log::RaftLog", "_dir_lock"), ("raft_log::dump::Dump", "_dir_lock"), ("file_lock::FileLock", "f")):
        a = ctx.facts.adts.get(adt)
        if not rep.expect("R13.4", "struct %s" % adt, a is not None):
            continue
        fs = [f for f in a["variants"][0]["fields"] if f["name"] == fld or (fld == "_dir_lock" and "FileLock" in f["ty"])]
        if not rep.expect("R13.4", "%s lock field" % adt, len(fs) >= 1, "no FileLock-typed field in %s" % adt):
            continue
        if any(f["pub"] for f in fs):
            rep.violation("R13.4", "%s|lock-field-public" % adt, adt, "the lock field is public: it can be moved out / replaced")
        else:
            rep.ok("R13.4", "%s lock field is private" % adt.split("::")[-1], fs[0]["vis"], nontrivial=False)
        if a.get("pub") and adt.endswith("FileLock"):
            rep.violation("R13.4", "FileLock-public", adt, "FileLock is exported")
    # R13.5: flock excludes on an inode, owners meet through the path: the path -> inode binding of the lock file must be stable
    rep.rule("R13.5", "the lock file is never unlinked, renamed or recreated by the lock's own code (constructor / Drop): flock is per "
                      "inode while owners find each other through the path, so removing the path lets two owners lock different inodes")
    UNLINK = r"fs::(remove_file|remove_dir|remove_dir_all|rename|hard_link|copy)$"
    n_lock_bodies = 0
    for b in ctx.facts.doc["bodies"]:
        if "file_lock::FileLock" in (b.get("impl_self") or "") or b["key"] == L or b["key"].startswith(L + "::"):
            n_lock_bodies += 1
            for bi, blk in enumerate(b["blocks"]):
                t = blk["term"]
                if blk["cleanup"] or t["k"] != "call":
                    continue
                if cmatch(t, UNLINK):
                    rep.violation("R13.5", "%s|%s-of-lock-path" % (short_key(b["key"]), cpath(t).split("::")[-1]), cpath(t),
                                  "the lock's own code removes/renames a file: once the LOCK path is unlinked on release, a waiter that "
                                  "already opened the old inode and a newcomer that creates a fresh LOCK file both obtain the exclusive lock",
                                  where="%s:%d" % (rel(t["file"]), t["line"]))
                if cmatch(t, r"fs::OpenOptions::create_new$") and t["args"] and t["args"][-1].get("int") == "1":
                    rep.violation("R13.5", "%s|lock-file-create_new" % short_key(b["key"]), cpath(t),
                                  "the lock file is opened with create_new: a stale LOCK file makes every later open fail",
                                  where="%s:%d" % (rel(t["file"]), t["line"]))
    rep.floor("R13.5", "bodies of the lock type examined", n_lock_bodies, 3)
    rep.ok("R13.5", "lock code never unlinks/renames", "%d bodies of FileLock examined" % n_lock_bodies, nontrivial=True) \
        if not any(o["rule"] == "R13.5" and o["status"] == "violation" for o in rep.obs) else None

    # R13.6: whether an attempt is refused is decided by the kernel's lock and nothing else
    rep.rule("R13.6", "the lock constructor refuses (returns Err) only when a system call failed (opening the LOCK file, flock): no Err return "
                      "without the Err edge of a call behind it; and neither the constructor nor the lock's Drop keeps process-wide state "
                      "(static / thread-local / OnceLock / atomic / global mutex) - a private registry of held locks decides differently from "
                      "the kernel (e.g. an entry leaked by a refused attempt makes every later attempt fail although the owner is gone)")
    gL = ctx.graph(L)
    PL = ctx.product(L)

    def step6(ms, pi, qi, learn):
        for o, v in norm_learn(learn):
            cn = origin_call(o)
            if cn is not None and v in ("Err", "Break") and cn not in gL.callee_inst:
                ms = True
        return ms
    seen6 = run_monitor(PL, False, step6)
    bad6 = None
    n_err6 = 0
    for (pi, ms0, ms) in finals(PL, seen6, step6):
        if PL.gnode(pi) in gL.exits and exit_is_err(PL, pi):
            n_err6 += 1
            if not ms:
                bad6 = (pi, ms0)
    if bad6:
        rep.violation("R13.6", "lock|refusal-without-failed-syscall", "lock constructor Err return",
                      "the lock constructor can refuse an attempt although no system call failed: the refusal comes from the program's own "
                      "bookkeeping, which can disagree with the kernel's lock state (stale after a refused attempt, blind to other processes)",
                      where=gL.where(PL.gnode(bad6[0])), path=describe_path(PL, [k[0] for k in path_to(seen6, bad6)]))
    else:
        rep.ok("R13.6", "lock constructor Err returns", "%d Err-exit state(s), each behind the Err edge of a call" % n_err6, where=gL.where(gL.entry))
    rep.floor("R13.6", "Err exits of the lock constructor", n_err6, 1)
    GLOBAL_RX = (r"thread::local::LocalKey|thread::LocalKey|sync::(once_lock::)?OnceLock|cell::(once::)?OnceCell|sync::(lazy_lock::)?LazyLock|"
                 r"sync::atomic::Atomic\w*::|sync::(poison::)?(mutex::)?Mutex::<T>::(lock|try_lock)$|sync::(poison::)?(rwlock::)?RwLock::<T>::(read|write|try_read|try_write)$|sync::Once::")
    n6 = 0
    for kk in [L] + [b["key"] for b in ctx.facts.doc["bodies"] if re.search(r"file_lock::FileLock as std::ops::Drop>::drop$", b["key"])]:
        gk = ctx.graph(kk)
        for n in gk.nodes:
            t = gk.term(n)
            if t["k"] != "call" or n in gk.callee_inst or t.get("exp"):
                continue
            n6 += 1
            if cmatch(t, GLOBAL_RX):
                rep.violation("R13.6", "%s|process-wide-state:%s" % (short_key(kk).split("::")[-1], cpath(t).split("::")[-1]), cpath(t),
                              "the directory lock's code consults / updates state shared by the whole process: ownership is then decided by "
                              "that state and not by flock alone", where=gk.where(n))
    rep.floor("R13.6", "call sites of the lock's constructor and Drop examined", n6, 6)

    # R13.7: who may hold the directory lock
    rep.rule("R13.7", "the directory lock has exactly one holder per open: the only struct fields whose type mentions FileLock are the lock fields of "
                      "RaftLog and Dump, and their type is FileLock itself - not Arc / Rc / Option / a reference (a shared or duplicated lock "
                      "outlives its owner, or is released under it: `flock` is released for every duplicate by the first explicit unlock, and "
                      "held until the last clone of an Arc is gone)")
    holders = []
    for adt_name, a in sorted(ctx.facts.adts.items()):
        if adt_name.startswith("testing::"):
            continue
        for v in a["variants"]:
            for f in v["fields"]:
                if re.search(r"(^|[^\w])(\w+::)*FileLock\b", f["ty"]):
                    holders.append((adt_name, f["name"], f["ty"]))
    n_h = 0
    for adt_name, fname, ty in holders:
        n_h += 1
        where = "%s:%s" % (ctx.facts.adts[adt_name].get("file", ""), ctx.facts.adts[adt_name].get("line", ""))
        owner_ok = adt_name in ("raft_log::raft_log::RaftLog", "raft_log::dump::Dump")
        ty_ok = bool(re.match(r"^(\w+::)*FileLock$", ty))
        if owner_ok and ty_ok:
            rep.ok("R13.7", "%s.%s: %s" % (adt_name.split("::")[-1], fname, ty), "owned lock", where=where, nontrivial=False)
        elif not owner_ok:
            rep.violation("R13.7", "lock-held-by:%s.%s" % (adt_name.split("::")[-1], fname), "%s.%s: %s" % (adt_name, fname, ty),
                          "a type other than RaftLog / Dump holds (a handle to) the directory lock: the directory stays locked after its "
                          "owner was dropped, or is unlocked under a living owner when this value goes away", where=where)
        else:
            rep.violation("R13.7", "lock-field-type:%s.%s" % (adt_name.split("::")[-1], fname), "%s.%s: %s" % (adt_name, fname, ty),
                          "the owner does not own the lock value itself (%s): the lock can be shared with, or outlived by, something else" % ty,
                          where=where)
    rep.floor("R13.7", "fields holding the directory lock", n_h, 2)

    # no Clone for FileLock, no try_clone, unlock only in Drop
    for im in ctx.facts.impls:
        if im["self_ty"].endswith("file_lock::FileLock") and im.get("trait", "").endswith("clone::Clone"):
            rep.violation("R13.2", "FileLock-is-Clone", "impl Clone for FileLock", "the lock can be duplicated")
    tc = [x for x in ctx.all_calls(r"fs::File::try_clone$") if "file_lock" in x[0]["key"]]
    for b, bi, t in tc:
        rep.violation("R13.2", "lock-file-cloned", "File::try_clone", "the locked descriptor is duplicated",
                      where="%s:%d" % (rel(t["file"]), t["line"]))
    unl = ctx.all_calls(UNLOCK_EVENT)
    # dropping the owner must give the directory back at that moment: an explicit unlock in the lock's Drop. Merely closing the descriptor
    # releases a flock only when no duplicate of the open file description exists (a forked child holds one until it execs or exits)
    drop_keys = [b["key"] for b in ctx.facts.doc["bodies"] if re.search(r"file_lock::FileLock as std::ops::Drop>::drop$", b["key"])]
    drop_cone = set()
    drop_reaches_unlock = False
    for dk in drop_keys:
        gd = ctx.graph(dk)
        drop_cone |= {i.key for i in gd.insts}
        if ctx.product(dk).calls(UNLOCK_EVENT):
            drop_reaches_unlock = True
    drops_unlock = [b for b, bi, t in unl if b["key"] in drop_cone]
    if not drop_reaches_unlock:
        rep.violation("R13.2", "FileLock|drop-does-not-unlock", "Drop for FileLock",
                      "the lock value's Drop does not unlock: the directory stays locked after the owner was dropped for as long as any "
                      "duplicate of the descriptor lives (fork window of a concurrent Command::spawn), so the next open is refused",
                      where="src/file_lock.rs")
    for b, bi, t in unl:
        where = "%s:%d" % (rel(t["file"]), t["line"])
        callers_ok = b["key"] in drop_cone and (re.search(r"file_lock::FileLock as std::ops::Drop>::drop$", b["key"]) or
                                                 all(c_ in drop_cone for c_ in _callers_of(ctx, b["key"])))
        if callers_ok:
            rep.ok("R13.2", "unlock in Drop for FileLock", "in the cone of Drop (and called from nowhere else)", where=where, nontrivial=False)
        else:
            rep.violation("R13.2", "unlock-outside-drop:%s" % short_key(b["key"]), "unlock",
                          "the directory lock is released outside FileLock's Drop (while the owner may still be alive)", where=where)
