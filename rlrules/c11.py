"""C11 -- the on-disk journal is an exact, gap-free record of accepted writes.
R11.1 next chunk id = end of the previous chunk; R11.2 offsets advance by exactly the encoder's byte count;
R11.3 rotation test after every accepted write with the table records >= max_records || size >= max_size;
R11.4 every writer returns the segment of the record it journalled; R11.5 on_disk_size; R11.6 = R03.4/R04.8."""
import re

from engine import (cmatch, cpath, expr_s, norm_learn, run_monitor, path_to, describe_path, strip_ids, OKV, ERRV, contains, finals)
from helpers import *
import c03
import c04

OFFS = lambda e: is_field(e, "global_offsets")


def unfield0(e):
    """strip the `.0` of an overflow-checked binop and casts"""
    while isinstance(e, tuple) and e:
        if e[0] == "cast":
            e = e[1]
        elif e[0] == "field" and isinstance(e[1], tuple) and e[1] and e[1][0] == "binop" and str(e[2]) == "0":
            e = e[1]
        else:
            break
    return e


def is_len_minus(e, k, base_pred=OFFS):
    e = unfield0(e)
    return isinstance(e, tuple) and e[0] == "binop" and e[1].startswith("Sub") and call_is(e[2], r"Vec::<T, A>::len$") \
        and base_pred(call_arg(e[2], 0)) and is_const(e[3], k)


def is_off(e, k, base_pred=OFFS):
    """offsets[len - k]"""
    return is_index(e, base_pred) and is_len_minus(call_arg(e, 1) if e[0] in ("call", "ret") else e[2], k, base_pred)


def is_last_segment(e, base_pred=OFFS):
    """Segment::new(offsets[len-2], offsets[len-1] - offsets[len-2])"""
    if not call_is(e, r"Segment::<C>::new$"):
        return False
    a, b = call_arg(e, 0), unfield0(call_arg(e, 1))
    return is_off(a, 2, base_pred) and isinstance(b, tuple) and b[0] == "binop" and b[1].startswith("Sub") \
        and is_off(b[2], 1, base_pred) and is_off(b[3], 2, base_pred)


def _fmt_template(v):
    """decode rustc's format_args template constant b"..." into ['lit', ARG, 'lit', ...]; None if the encoding is not understood"""
    import ast
    try:
        bs = ast.literal_eval(v)
    except Exception:
        return None
    if not isinstance(bs, bytes):
        return None
    out, i = [], 0
    while i < len(bs):
        b = bs[i]
        if b == 0:
            return out if i == len(bs) - 1 else None
        if b < 0x80:
            out.append(bs[i + 1:i + 1 + b].decode("utf-8", "replace"))
            i += 1 + b
        elif b == 0xC0:
            out.append(("ARG",))
            i += 1
        else:
            return None
    return None


def _own_consts(b, pred):
    out = []
    for blk in b["blocks"]:
        for st in blk["stmts"]:
            if st["k"] == "assign":
                rv = st["rv"]
                for o in ([rv.get("a"), rv.get("b")] + list(rv.get("fields", []))):
                    if isinstance(o, dict) and o.get("k") == "const" and pred(o, st):
                        out.append((o, st))
        t = blk["term"]
        if t["k"] == "call":
            for o in t["args"]:
                if o.get("k") == "const" and pred(o, t):
                    out.append((o, t))
    return out


def cnt_raw(v):
    """the addend of `offsets[len-1] + n` (un-stripped)"""
    x = v
    while isinstance(x, tuple) and x and x[0] in ("field", "cast") and isinstance(x[1], tuple):
        x = x[1]
    if isinstance(x, tuple) and x and x[0] == "binop" and len(x) > 3:
        return x[3]
    return v


def r11_7(ctx, rep):
    """R11.7: the chunk file name writer and parser agree (sibling codec tables): same literal prefix/suffix, and the length the parser
    insists on is the length the writer always produces."""
    rep.rule("R11.7", "file-name codec tables agree: the literal prefix and suffix written by Config::chunk_file_name are the ones "
                      "parse_chunk_file_name strips (a miss is an error, not a skip), the parser's required length equals the writer's padded "
                      "width W plus its (W-1)/G separators, and W >= 20 digits so no u64 offset overflows the width")
    B = ctx.facts.bodies

    def local_callees(b):
        return [blk["term"]["callee"].get("rkey") or blk["term"]["callee"].get("key") for blk in b["blocks"]
                if blk["term"]["k"] == "call" and (blk["term"]["callee"].get("rlocal") or blk["term"]["callee"].get("local"))
                and not blk["term"].get("exp")]

    def cone(root):
        seen_, work_ = [], [root]
        while work_:
            k_ = work_.pop()
            if k_ in seen_ or k_ not in B:
                continue
            seen_.append(k_)
            work_ += [x for x in local_callees(B[k_]) if x]
            work_ += [c_ for c_ in B if c_.startswith(k_ + "::{closure")]
        return seen_
    # anchors are the two PUBLIC functions: Config::chunk_path (writes a name) and Config::parse_chunk_file_name (reads one); the code that
    # formats / strips may sit in them or in private helpers below them (wherever a refactoring puts it)
    pathk = [k for k in B if re.search(r"config::Config::chunk_path$", k)]
    pk = [k for k in B if re.search(r"config::Config::parse_chunk_file_name$", k)]
    if not rep.expect("R11.7", "Config::chunk_path and Config::parse_chunk_file_name", len(pathk) == 1 and len(pk) == 1, "found %d/%d" % (len(pathk), len(pk))):
        return
    w = None
    tpl = []
    for k_ in cone(pathk[0]):
        tp = [_fmt_template(o["v"]) for o, _s in _own_consts(B[k_], lambda o, s_: re.match(r"&\[u8; \d+\]$", o.get("ty", "")))]
        tp = [t_ for t_ in tp if t_ and len(t_) == 3 and t_[1] == ("ARG",) and isinstance(t_[0], str) and isinstance(t_[2], str)]
        if tp:
            w, tpl = B[k_], tp
            break
    if not rep.expect("R11.7", "writer's format template", w is not None and len(tpl) == 1,
                      "no `<prefix>{}<suffix>` template found under Config::chunk_path", where="%s:%s" % (B[pathk[0]]["file"], B[pathk[0]]["line"])):
        return
    p_cone = [B[k_] for k_ in cone(pk[0])]
    p = B[pk[0]]
    prefix, suffix = tpl[0][0], tpl[0][2]
    # the padded-number formatter: the unique crate-local callee of the writer, followed down to the constant width and the group size
    def local_callees(b):
        return [blk["term"]["callee"].get("rkey") or blk["term"]["callee"].get("key") for blk in b["blocks"]
                if blk["term"]["k"] == "call" and (blk["term"]["callee"].get("rlocal") or blk["term"]["callee"].get("local"))
                and not blk["term"].get("exp")]
    widths, groups, seen, work = [], [], set(), [k for k in local_callees(w) if k]
    while work:
        k = work.pop()
        if k in seen or k not in B:
            continue
        seen.add(k)
        b = B[k]
        widths += [int(o["int"]) for o, t in _own_consts(b, lambda o, s: o.get("ty") == "usize" and "int" in o and s.get("k") == "call"
                                                         and (s["callee"].get("rlocal") or s["callee"].get("local")))]
        groups += [int(o["int"]) for o, st in _own_consts(b, lambda o, s: o.get("ty") == "usize" and "int" in o and s.get("k") == "assign"
                                                          and s["rv"].get("op") == "Rem")]
        work += [x for x in local_callees(b) if x]
        work += [c for c in B if c.startswith(k + "::{closure")]
    strip = {}
    for blk in [blk_ for pb in p_cone for blk_ in pb["blocks"]]:
        t = blk["term"]
        if t["k"] == "call" and re.search(r"str>::strip_(suffix|prefix)$|<impl str>::strip_(suffix|prefix)$", t["callee"]["path"]):
            kind = "suffix" if "strip_suffix" in t["callee"]["path"] else "prefix"
            cs = [o for o in t["args"] if o.get("k") == "const" and o.get("ty") == "&str"]
            if cs:
                import ast
                strip.setdefault(kind, []).append(ast.literal_eval(cs[0]["v"]))
    lens = [int(o["int"]) for pb in p_cone for o, st in _own_consts(pb, lambda o, s: o.get("ty") == "usize" and "int" in o and s.get("k") == "assign"
                                                                     and s["rv"].get("op") in ("Ne", "Eq"))]
    where_p = "%s:%s" % (p["file"], p["line"])
    ok = True
    if strip.get("prefix") != [prefix] or strip.get("suffix") != [suffix]:
        ok = False
        rep.violation("R11.7", "file-name|literals-differ", "chunk file name literals",
                      "the writer produces `%s<number>%s` but the parser strips prefix %s / suffix %s: files written by this code are not "
                      "recognised (or foreign files are) when the directory is listed at open" % (prefix, suffix, strip.get("prefix"), strip.get("suffix")),
                      where=where_p)
    if not (len(set(widths)) == 1 and len(set(groups)) == 1 and len(set(lens)) == 1):
        rep.unresolved("R11.7", "file-name|width-constants", "padded width %s, group %s, parser length %s: expected one of each" % (widths, groups, lens),
                       where=where_p)
        return
    W, G, L = widths[0], groups[0], lens[0]
    if W < 20:
        ok = False
        rep.violation("R11.7", "file-name|width-below-u64", "padded width %d" % W,
                      "a u64 offset has up to 20 digits: wider numbers change the name length and the parser rejects the store's own files",
                      where="%s:%s" % (w["file"], w["line"]))
    if L != W + (W - 1) // G:
        ok = False
        rep.violation("R11.7", "file-name|length-differs", "parser length %d" % L,
                      "the writer always produces %d digits + %d separators = %d characters, the parser insists on %d: every chunk file is "
                      "refused at open" % (W, (W - 1) // G, W + (W - 1) // G, L), where=where_p)
    if ok:
        rep.ok("R11.7", "chunk_file_name / parse_chunk_file_name", "`%s` + %d digits grouped by %d (= %d chars) + `%s` on both sides"
               % (prefix, W, G, L, suffix), where=where_p)


def _subterms(e):
    yield e
    if isinstance(e, tuple):
        for x in e:
            if isinstance(x, (tuple, list)):
                for y in (x if isinstance(x, list) else [x]):
                    yield from _subterms(y)


def r11_8(ctx, rep, only=None):
    """R11.8: the getters of Config are a table over its fields: a public getter named like a field reads that field and no other."""
    rep.rule("R11.8", "configuration table: every public Config getter that is named like a Config field reads exactly that field (and no "
                      "other field of the configuration): the limit that closes a chunk, sizes the cache or enables tail truncation is the one "
                      "the user configured under that name")
    adt = ctx.facts.adts.get("config::Config")
    if not rep.expect("R11.8", "struct Config", adt is not None):
        return
    fields = [f["name"] for f in adt["variants"][0]["fields"]]
    n = 0
    for b in ctx.facts.doc["bodies"]:
        if b.get("impl_self") != "config::Config" or not b.get("pub") or b.get("argc") != 1:
            continue
        nm = b["key"].split("::")[-1]
        if nm not in fields or (only and nm not in only):
            continue
        n += 1
        reads = set()

        def scan(o):
            if isinstance(o, dict):
                pr = o.get("proj")
                if isinstance(pr, list):
                    for el in pr:
                        if isinstance(el, dict) and el.get("adt") == "config::Config" and "n" in el:
                            reads.add(el["n"])
                for v in o.values():
                    scan(v)
            elif isinstance(o, list):
                for v in o:
                    scan(v)
        for blk in b["blocks"]:
            if not blk.get("cleanup"):
                scan(blk)
        where = "%s:%s" % (b["file"], b["line"])
        if reads == {nm}:
            rep.ok("R11.8", "Config::%s" % nm, "reads only its own field", where=where, nontrivial=False)
        else:
            rep.violation("R11.8", "Config::%s|reads:%s" % (nm, ",".join(sorted(reads)) or "nothing"), "Config::%s" % nm,
                          "the getter `%s` reads %s instead of the field of its own name: the configured `%s` is ignored / another limit is "
                          "used in its place" % (nm, sorted(reads) or "no field", nm), where=where)
    rep.floor("R11.8", "Config getters named like a field", n, 4 if not only else len(only))
    # (b) constructors: a field is initialised from the parameter of its own name, never from the parameter named like another field
    n_ctor = 0
    for b in ctx.facts.doc["bodies"]:
        if b.get("impl_self") != "config::Config" or not b.get("pub"):
            continue
        aggs = [(bi, si, st) for bi, blk in enumerate(b["blocks"]) if not blk.get("cleanup") for si, st in enumerate(blk["stmts"])
                if st["k"] == "assign" and st["rv"]["k"] == "agg" and st["rv"].get("adt") == "config::Config"]
        if not aggs:
            continue
        gk = ctx.graph(b["key"])
        pnames = {i: (b["locals"][i].get("name") or "") for i in range(1, b.get("argc", 0) + 1)}
        for bi, si, st in aggs:
            n_ctor += 1
            for fn, fo in zip(st["rv"]["fnames"], st["rv"]["fields"]):
                if only and fn not in only:
                    continue
                e = strip_ids(gk.prov_operand(gk.insts[0], fo))
                src = sorted({pnames.get(x[1], "") for x in _subterms(e) if isinstance(x, tuple) and len(x) == 2 and x[0] == "arg"} - {""})
                wrong = [p_ for p_ in src if p_ != fn and p_ in fields]
                where = "%s:%s" % (b["file"], st.get("line", b["line"]))
                if wrong:
                    rep.violation("R11.8", "Config::%s|field:%s<=param:%s" % (b["key"].split("::")[-1], fn, ",".join(wrong)), "Config::%s" % b["key"].split("::")[-1],
                                  "the constructor stores the parameter `%s` in the field `%s`: the user's setting lands under another name" % (wrong[0], fn),
                                  where=where)
                else:
                    rep.ok("R11.8", "Config::%s: field %s" % (b["key"].split("::")[-1], fn), "<= %s" % (", ".join(src) or "default"), where=where, nontrivial=False)
    rep.floor("R11.8", "Config constructors", n_ctor, 1)
    # (d) siblings agree on what "not given" means: a field for which a public constructor has no parameter gets the value Default gives it
    #     (every getter resolves `None` to the documented default; a constructor that pre-sets `Some(x)` silently changes a default for the
    #     users of that constructor only)
    def _norm_default(e):
        if isinstance(e, tuple) and e and e[0] == "call" and re.search(r"Option<T> as std::default::Default>::default$", str(e[1])):
            return ("agg", "std::option::Option", "None", ())
        if isinstance(e, tuple) and e and e[0] == "field" and isinstance(e[1], tuple) and e[1] and e[1][0] == "call" \
                and re.search(r"config::Config as std::default::Default>::default$", str(e[1][1])):
            return dflt.get(e[2], e)
        return e
    dflt = {}
    for b in ctx.facts.doc["bodies"]:
        if b["key"].endswith("config::Config as std::default::Default>::default"):
            gk = ctx.graph(b["key"])
            for blk in b["blocks"]:
                for st in blk["stmts"]:
                    if st["k"] == "assign" and st["rv"]["k"] == "agg" and st["rv"].get("adt") == "config::Config":
                        for fn, fo in zip(st["rv"]["fnames"], st["rv"]["fields"]):
                            dflt[fn] = _norm_default(strip_ids(gk.prov_operand(gk.insts[0], fo)))
    n_d = 0
    if rep.expect("R11.8", "Default for Config", bool(dflt), "no `impl Default for Config` body with a Config aggregate found"):
        for b in ctx.facts.doc["bodies"]:
            if b.get("impl_self") != "config::Config" or not b.get("pub"):
                continue
            gk = None
            for bi, blk in enumerate(b["blocks"]):
                if blk.get("cleanup"):
                    continue
                for si, st in enumerate(blk["stmts"]):
                    if not (st["k"] == "assign" and st["rv"]["k"] == "agg" and st["rv"].get("adt") == "config::Config"):
                        continue
                    gk = gk or ctx.graph(b["key"])
                    for fn, fo in zip(st["rv"]["fnames"], st["rv"]["fields"]):
                        if only and fn not in only:
                            continue
                        e = strip_ids(gk.prov_operand(gk.insts[0], fo))
                        if any(isinstance(x, tuple) and len(x) == 2 and x[0] == "arg" for x in _subterms(e)):
                            continue            # set from a parameter: (b)
                        n_d += 1
                        where = "%s:%s" % (b["file"], st.get("line", b["line"]))
                        if _norm_default(e) != dflt.get(fn):
                            rep.violation("R11.8", "Config::%s|field:%s|constructor-default-differs-from-Default" % (b["key"].split("::")[-1], fn),
                                          "Config::%s" % b["key"].split("::")[-1],
                                          "the constructor has no parameter for `%s` and sets it to %s, while Default gives %s: users of this "
                                          "constructor silently run with another default (e.g. tail truncation switched off: a torn tail after a crash "
                                          "then refuses to open)" % (fn, expr_s(e)[:60], expr_s(dflt.get(fn))[:60]), where=where)
                        else:
                            rep.ok("R11.8", "Config::%s: field %s without parameter" % (b["key"].split("::")[-1], fn), "= Default's value", where=where, nontrivial=False)
    rep.floor("R11.8", "constructor fields without a parameter", n_d, 1)
    # (c) a configuration derived from another one (normalising the directory, filling defaults, ...) carries EVERY setting over: in any
    #     function that receives a Config and builds a Config (directly or through a constructor it calls), each field of the new value
    #     derives from the same field of the one received
    n_deriv = 0
    for b in ctx.facts.doc["bodies"]:
        if b["key"].startswith(("testing::", "<testing::")) or b.get("kind") == "Closure":
            continue
        tys = [l.get("ty", "") for l in b.get("locals", [])[1:1 + b.get("argc", 0)]]
        cfg_params = [i + 1 for i, t_ in enumerate(tys) if re.search(r"(^|[^\w])(\w+::)*config::Config\b", t_)]
        if not cfg_params or (b.get("impl_trait") or "").endswith("clone::Clone"):
            continue
        gk = ctx.graph(b["key"])
        Pk = ctx.product(b["key"])
        for n_ in sorted(Pk.live):
            for si, st in enumerate(gk.stmts(n_)):
                if not (st["k"] == "assign" and st["rv"]["k"] == "agg" and st["rv"].get("adt") == "config::Config"):
                    continue
                n_deriv += 1
                lost = []
                for fn, fo in zip(st["rv"]["fnames"], st["rv"]["fields"]):
                    if only and fn not in only:
                        continue
                    e = strip_ids(gk.prov_operand(gk.inst(n_), fo))
                    from_same = contains(e, lambda x: is_field(x, fn) and contains(x, lambda y: isinstance(y, tuple) and len(y) == 2 and y[0] == "arg" and y[1] in cfg_params))
                    if not from_same:
                        lost.append(fn)
                where = gk.where(n_, si)
                if lost:
                    rep.violation("R11.8", "%s|config-rebuilt-without:%s" % (short_key(b["key"]).split("::")[-1], ",".join(lost)), short_key(b["key"]),
                                  "a Config is rebuilt from another Config but the setting(s) %s are not carried over: the store runs with the "
                                  "default instead of what the user configured (e.g. tail truncation comes back on)" % lost, where=where)
                else:
                    rep.ok("R11.8", "%s: derived Config" % short_key(b["key"]).split("::")[-1], "every field carried over", where=where)


def run(ctx, rep):
    rep.rule("R11.1", "the ChunkId given to the chunk-creating call at rotation is the end of the open chunk's last segment, read before self.open is replaced")
    rep.rule("R11.2", "the value pushed to global_offsets when a record is journalled is offsets[len-1] + (byte count returned by encoding that record into pending_data)")
    rep.rule("R11.3", "after every accepted write the rotation test is evaluated; rotation happens iff records_count >= chunk_max_records || chunk_size >= chunk_max_size")
    rep.rule("R11.4", "every write operation returns the segment (offsets[len-2], offsets[len-1]-offsets[len-2]) of the open chunk read after journalling its record and before any rotation")
    rep.rule("R11.5", "on_disk_size = end of the open chunk - (start of the first closed chunk, or of the open chunk when none is closed)")
    creators = chunk_creators(ctx)
    ops = [k for k in ctx.write_entries() if not k.endswith("::flush")]
    rep.floor("R11.4", "write operations", len(ops), 7)
    for key in ops:
        op = short_key(key).split("::")[-1]
        g = ctx.graph(key)
        P = ctx.product(key)
        repl = set(n for n in P.calls(r"mem::replace$") if is_field(strip_ids(event_args(g, n)[0]), "open"))
        encs = [n for n, sub in g.callee_inst.items() if re.search(r"WALRecord<T> as codeq::Encode>::encode$", sub.key) and n in P.live
                and has_field(strip_ids(event_args(g, n)[1]) if len(event_args(g, n)) > 1 else (), "pending_data")]
        pushes = [n for n in P.calls(r"Vec::<T, A>::push$") if OFFS(strip_ids(event_args(g, n)[0]))
                  and is_field(strip_ids(event_args(g, n)[0])[1], "chunk") and has_field(strip_ids(event_args(g, n)[0]), "open")]
        crs = [n for n, sub in g.callee_inst.items() if sub.key in creators and n in P.live]

        # ---------- R11.2 ----------
        if rep.expect("R11.2", "%s: journal encode + offset push" % op, bool(encs) and bool(pushes)):
            for n in pushes:
                v = unfield0(strip_ids(event_args(g, n)[1]))
                ok = isinstance(v, tuple) and v[0] == "binop" and v[1].startswith("Add") and is_off(v[2], 1)
                cnt = unfield0(v[3]) if ok else None
                def under(e):
                    ids, stack = set(), [g.callee_inst[e]]
                    while stack:
                        x_ = stack.pop()
                        ids.add(x_.id)
                        stack.extend(y_ for y_ in g.insts if y_.parent is x_)
                    return ids
                # the count comes out of THIS record's encode call: the call itself, or (when the encoder's result is looked through) values
                # computed inside that call's instance / its private helpers
                ok = ok and any(contains(event_args(g, n)[1], lambda y, e=e: isinstance(y, tuple) and len(y) > 3 and y[0] in ("ret", "call") and y[3] == e)
                                or contains(cnt_raw(event_args(g, n)[1]), lambda y, e=e, u=under(e): isinstance(y, tuple) and (
                                    (len(y) == 3 and y[0] == "var" and y[1] in u) or
                                    (len(y) > 3 and y[0] in ("call", "ret") and isinstance(y[3], tuple) and y[3][0] in u)))
                                for e in encs)
                if ok:
                    rep.ok("R11.2", "%s: offsets.push" % op, "offsets[len-1] + bytes returned by encoding this record into pending_data", where=g.where(n))
                else:
                    rep.violation("R11.2", "%s|offset-push:%s" % (op, expr_s(v)[:60]), "%s: offsets.push" % op,
                                  "the recorded end offset of a journalled record is not `previous end + bytes the encoder reported`: %s" % expr_s(v)[:120],
                                  where=g.where(n))

        # ---------- R11.1 ----------
        for n in crs:
            args = [strip_ids(a) for a in event_args(g, n)]
            ids = [a for a in args if isinstance(a, tuple) and a and a[0] == "agg" and str(a[1]).endswith("ChunkId")]
            v = ids[0][3][0] if ids else None
            vv = v
            if isinstance(vv, tuple) and vv and vv[0] == "field":
                vv = vv[1]
            ok = vv is not None and call_is(vv, r"Span::end$") and is_last_segment(call_arg(vv, 0))
            if ok:
                rep.ok("R11.1", "%s: new chunk id at rotation" % op, "= end of the open chunk's last segment", where=g.where(n))
            else:
                rep.violation("R11.1", "%s|new-chunk-id:%s" % (op, expr_s(v)[:50]), "%s: new chunk id" % op,
                              "the chunk created at rotation is not named by the end offset of the chunk being closed: consecutive files would "
                              "not abut (%s)" % expr_s(v)[:100], where=g.where(n))
            # evaluated before the replace: creation precedes replace by construction (the replace consumes the created chunk)

        # ---------- R11.3 ----------
        applies = inlined_calls(g, r"as api::state_machine::StateMachine<.*>>::apply$", P.live)
        outs = [call_outcome(P, cn) for cn in applies]

        def rot_fact(o, v):
            e = origin_stmt_expr(g, o)
            if e is None or e[0] != "binop" or e[1] not in ("Ge", "Gt", "Lt", "Le"):
                return None
            a, b = unfield0(strip_ids(e[2])), unfield0(strip_ids(e[3]))

            def cls(x, y):
                xs, ys = expr_s(x), expr_s(y)
                if is_len_minus(x, 1) and "chunk_max_records" in ys:
                    return "records"
                if isinstance(x, tuple) and x[0] == "binop" and x[1].startswith("Sub") and is_off(x[2], 1) and is_index(x[3], OFFS, 0) \
                        and "chunk_max_size" in ys:
                    return "size"
                return None
            c = cls(a, b)
            if c:
                if e[1] == "Ge":
                    return (c, v == "true", True)
                if e[1] == "Lt":
                    return (c, v == "false", True)
                return (c, None, False)          # `>` / `<=`: off by one: closes one record late
            c = cls(b, a)
            if c:
                if e[1] == "Le":
                    return (c, v == "true", True)
                if e[1] == "Gt":
                    return (c, v == "false", True)
                return (c, None, False)
            return None

        def step(ms, pi, qi, learn):
            applied, rec_full, size_full, exact = ms
            for f in outs:
                if f(pi, qi, learn) == "ok":
                    applied, rec_full, size_full = True, None, None
            for o, v in norm_learn(learn):
                r = rot_fact(o, v)
                if r:
                    if not r[2]:
                        exact = False
                    if r[0] == "records":
                        rec_full = r[1]
                    else:
                        size_full = r[1]
            return (applied, rec_full, size_full, exact)
        if applies:
            seen = run_monitor(P, (False, None, None, True), step)
            bad_rot = bad_exit = bad_exact = None
            for (pi, ms) in seen:
                if P.gnode(pi) in crs and not (ms[1] is True or ms[2] is True):
                    bad_rot = (pi, ms)
                if not ms[3]:
                    bad_exact = (pi, ms)
            for (pi, ms0, ms) in finals(P, seen, step):
                if P.gnode(pi) in g.exits and not exit_is_err(P, pi) and ms[0]:
                    rotated = False
                    if not (ms[1] is False and ms[2] is False) and not _rotated_on_path(P, seen, (pi, ms0), crs):
                        bad_exit = (pi, ms0)
            if bad_exact:
                rep.violation("R11.3", "%s|rotation-test-not->=" % op, "%s: rotation test" % op,
                              "the chunk-full test is not `>=` against the configured limit: a chunk is closed one record late / early",
                              where=g.where(P.gnode(bad_exact[0])))
            if bad_rot:
                rep.violation("R11.3", "%s|rotation-without-full" % op, "%s: rotation" % op,
                              "a chunk is closed on a path that established neither records >= max_records nor size >= max_size",
                              where=g.where(P.gnode(bad_rot[0])))
            if bad_exit:
                rep.violation("R11.3", "%s|accepted-write-without-rotation-test" % op, "%s: Ok return" % op,
                              "an accepted write can return without the rotation test having found both limits unreached (and without rotating): "
                              "a full chunk stays open", where=g.where(P.gnode(bad_exit[0])),
                              path=describe_path(P, [k[0] for k in path_to(seen, bad_exit)]))
            if not (bad_rot or bad_exit or bad_exact):
                rep.ok("R11.3", "%s: rotation test" % op, "evaluated after every accepted write; rotate iff records>=max || size>=max", where=g.where(g.entry))

        # ---------- R11.4 ----------
        # the reads feeding the returned segment must come after the journal push and before any replace of self.open
        pset = set(pushes)

        def step4(ms, pi, qi, learn):
            pushed, replaced = ms
            n = P.gnode(pi)
            if n in pset:
                pushed, replaced = True, False
            if n in repl:
                replaced = True
            return (pushed, replaced)
        seen4 = run_monitor(P, (False, False), step4)
        n_exit = 0
        bad = None
        why = ""
        for (pi, ms) in seen4:
            n = P.gnode(pi)
            if n not in g.exits or exit_is_err(P, pi):
                continue
            n_exit += 1
        # provenance of the returned value: which len() reads feed it
        ret_nodes = set()
        shape_ok = True
        for n in g.exits:
            if n not in P.live:
                continue
            for si, s in enumerate(g.stmts(n)):
                pass
        rv = []
        for e in _returned_ok_values(g, P):
            if isinstance(e, tuple) and e and e[0] == "var":
                # a multiply-assigned local (e.g. `segment` updated in a loop): every definition counts
                vi = g.insts[e[1]]
                for d in g.prog.defs(vi.key).get(e[2], []):
                    if d[0] == "s":
                        st = vi.body["blocks"][d[1]]["stmts"][d[2]]
                        if (vi.id, d[1]) in P.live:
                            rv.append(g.prov_rvalue(vi, st["rv"], None))
                    elif (vi.id, d[1]) in P.live:
                        rv.append(g.prov_call(vi, d[1]))
            else:
                rv.append(e)
        # a value obtained with `?` from a helper whose Ok value comes out of a map / and_then chain
        expanded = []
        for e in rv:
            cur, guard = [e], 0
            while guard < 4 and any(isinstance(x, tuple) and x and x[0] == "okval" and isinstance(x[1], tuple) and x[1] and x[1][0] in ("ret", "call")
                                    and _ok_values(g, P, x[1]) for x in cur):
                nxt = []
                for x in cur:
                    if isinstance(x, tuple) and x and x[0] == "okval" and isinstance(x[1], tuple) and x[1] and x[1][0] in ("ret", "call"):
                        vs = _ok_values(g, P, x[1])
                        nxt += vs if vs else [x]
                    else:
                        nxt.append(x)
                cur = nxt
                guard += 1
            expanded += cur
        rv = expanded
        for e in rv:
            es = strip_ids(e)
            if not is_last_segment(es, lambda b: OFFS(b) and has_field(b, "open")):
                shape_ok = False
                why = expr_s(es)[:120]

            def collect(x):
                if isinstance(x, tuple):
                    if len(x) > 3 and x[0] == "call" and re.search(r"Vec::<T, A>::len$", x[1]):
                        ret_nodes.add(x[3])
                    for y in x:
                        if isinstance(y, tuple):
                            collect(y)
            collect(e)
        if not rv:
            rep.unresolved("R11.4", "%s-return-value" % op, "cannot determine the provenance of the returned segment", where=g.where(g.entry))
        elif not shape_ok:
            rep.violation("R11.4", "%s|returned-segment-shape" % op, "%s: returned segment" % op,
                          "the returned segment is not (offsets[len-2], offsets[len-1]-offsets[len-2]) of the open chunk: %s" % why,
                          where=g.where(g.entry))
        else:
            late = next(((pi, ms) for (pi, ms) in seen4 if P.gnode(pi) in ret_nodes and ms[1]), None)
            early = next(((pi, ms) for (pi, ms) in seen4 if P.gnode(pi) in ret_nodes and not ms[0]), None) if pushes and op != "purge" else None
            if late:
                rep.violation("R11.4", "%s|segment-read-after-rotation" % op, "%s: returned segment" % op,
                              "the returned segment is read from self.open after the chunk may have been rotated: the write that fills a chunk "
                              "returns the new chunk's head State record instead of its own record", where=g.where(P.gnode(late[0])),
                              path=describe_path(P, [k[0] for k in path_to(seen4, late)]))
            elif early and op not in ("append",):
                rep.violation("R11.4", "%s|segment-read-before-journal" % op, "%s: returned segment" % op,
                              "the returned segment is read before the record is journalled", where=g.where(P.gnode(early[0])))
            else:
                rep.ok("R11.4", "%s: returned segment" % op, "last segment of the open chunk, read after the journal push and before rotation",
                       where=g.where(g.entry))

    # ---------------- R11.5 -------------------------------------------------------------
    key = ctx.body_key(r"RaftLog::<T>::on_disk_size$")
    g = ctx.graph(key)
    P = ctx.product(key)
    rv = _returned_values(g, P)
    ok = False
    for e in rv:
        es = unfield0(strip_ids(e))
        if isinstance(es, tuple) and es[0] == "binop" and es[1].startswith("Sub"):
            end, start = es[2], es[3]
            end_ok = is_off(end, 1, lambda b: OFFS(b) and has_field(b, "open"))
            # unwrap_or(map(first_key_value(closed), |v| v.chunk.global_start()), open_start)
            first_closed = lambda z: contains(z, lambda x: call_is(x, r"BTreeMap::<K, V, A>::first_key_value$") and is_field(call_arg(x, 0), "closed"))
            open_start = lambda z: is_index(z, lambda b: OFFS(b) and has_field(b, "open"), 0)
            # unwrap_or(map(first_key_value(closed), |v| start of v), open_start)   or   map_or(first_key_value(closed), open_start, |v| start of v)
            st_ok = (call_is(start, r"Option::<T>::unwrap_or$") and first_closed(call_arg(start, 0)) and open_start(call_arg(start, 1))) or \
                    (call_is(start, r"Option::<T>::map_or$") and first_closed(call_arg(start, 0)) and open_start(call_arg(start, 1)))
            # the closure maps to the closed chunk's own start
            cl_ok = False
            for n, subs in g.closure_insts.items():
                for sub in subs:
                    r0 = strip_ids(g.prov_local(sub, 0))
                    if is_index(r0, OFFS, 0):
                        cl_ok = True
            ok = end_ok and st_ok and cl_ok
            if end_ok and not ok:
                # the same two sources chosen by a match / if-let instead of a combinator
                raw = unfield0(e)
                raw_start = raw[3] if (isinstance(raw, tuple) and raw[0] == "binop") else None
                srcs = {strip_ids(x) for x in value_sources(g, raw_start)} if raw_start is not None else set()
                a_ = [x for x in srcs if open_start(x)]
                b_ = [x for x in srcs if x not in a_ and is_index(x, OFFS, 0) and first_closed(x)]
                ok = len(srcs) == 2 and len(a_) == 1 and len(b_) == 1
            detail = "end=%s start=%s" % (expr_s(end)[:50], expr_s(start)[:80])
    if ok:
        rep.ok("R11.5", "on_disk_size", "open.end - (first closed start | open start)", where=g.where(g.entry))
    else:
        rep.violation("R11.5", "on_disk_size|provenance", "on_disk_size",
                      "the reported size is not `end of the open chunk - start of the oldest retained chunk (the open chunk's own start when "
                      "no closed chunk is retained)`: %s" % (detail if rv else "unresolved"), where=g.where(g.entry))

    # ---------------- R11.7 -------------------------------------------------------------
    r11_7(ctx, rep)
    r11_8(ctx, rep)

    # ---------------- R11.6 -------------------------------------------------------------
    rep.rule("R11.6", "= R03.4 / R04.2 / R04.3 / R04.8: every batch element is written completely (write_all) to the file whose name is its offset; the worker's file list keeps its order (the newest file is the write target)")
    c03.run(ctx, c03._Filter(rep, keep=("R03.4",), rename="R11.6/"))
    c04.run(ctx, c03._Filter(rep, keep=("R04.2", "R04.3", "R04.8"), rename="R11.6/"))


def _rotated_on_path(P, seen, k, crs):
    while k is not None:
        if P.gnode(k[0]) in crs:
            return True
        k = seen[k]
    return False


def _returned_values(g, P):
    """provenance of every value assigned to the entry's return place"""
    out = []
    inst = g.insts[0]
    for d in g.prog.defs(inst.key).get(0, []):
        if d[0] == "s":
            s = inst.body["blocks"][d[1]]["stmts"][d[2]]
            if (0, d[1]) in P.live:
                out.append(g.prov_rvalue(inst, s["rv"], None))
        else:
            if (0, d[1]) in P.live:
                out.append(g.prov_call(inst, d[1]))
    return out


def _ok_values(g, P, e, depth=0):
    """Ok payloads a Result-valued provenance expression can carry (looking into tail calls of inlined helpers and into
    try_fold, whose result is its initial accumulator or the Ok value of the last closure call)"""
    out = []
    if depth > 6 or not isinstance(e, tuple) or not e:
        return out
    if e[0] == "agg" and e[2] == "Ok" and e[3]:
        out.append(e[3][0])
    elif e[0] == "ret":
        sub = g.callee_inst.get(e[3])
        if sub is not None:
            out += _ok_values_of_inst(g, P, sub, depth + 1)
    elif e[0] == "call" and len(e) > 3 and re.search(r"result::Result::<T, E>::(map|and_then)$", str(e[1])) and e[2]:
        # recv.map(|x| v) yields Ok(v); recv.and_then(|x| r) yields what r yields (both only when recv was Ok)
        is_map = str(e[1]).endswith("::map")
        for sub in g.closure_insts.get(e[3], []):
            if is_map:
                out.append(g.prov_local(sub, 0))
            else:
                out += _ok_values_of_inst(g, P, sub, depth + 1)
    elif e[0] == "call" and len(e) > 3 and re.search(r"iter::Iterator>?::try_fold$", str(e[1])) and len(e[2]) >= 2:
        out.append(e[2][1])                               # zero elements: the initial accumulator
        for sub in g.closure_insts.get(e[3], []):
            out += _ok_values_of_inst(g, P, sub, depth + 1)
    return out


def _ok_values_of_inst(g, P, sub, depth):
    out = []
    for d in g.prog.defs(sub.key).get(0, []):
        if (sub.id, d[1]) not in P.live:
            continue
        if d[0] == "s":
            s = sub.body["blocks"][d[1]]["stmts"][d[2]]
            if s["rv"]["k"] == "agg" and s["rv"].get("variant") == "Ok":
                out.append(g.prov_operand(sub, s["rv"]["fields"][0]))
            elif s["rv"]["k"] == "use":
                out += _ok_values(g, P, g.prov_rvalue(sub, s["rv"], None), depth)
        else:
            out += _ok_values(g, P, g.prov_call(sub, d[1]), depth)
    return out


def _returned_ok_values(g, P):
    out = []
    for e in _returned_values(g, P):
        out += _ok_values(g, P, e)
    return out
