"""E2 core: inlined entry graphs, provenance resolver, variant-tag product graph, monitors.

Nothing here is specific to one property. See DESIGN.md section 2.2.
"""
import re
from collections import defaultdict, deque

MAX_DEPTH = 10
MAX_PNODES = 1200000


class Unresolved(Exception):
    """Fail-closed: the engine met something it cannot analyse soundly."""


# --------------------------------------------------------------------------------------
# callee helpers
# --------------------------------------------------------------------------------------

def callee(t):
    return t.get("callee") if t and t.get("k") == "call" else None


def cpath(t):
    """generic-less path of the (resolved if possible) callee of a call terminator."""
    c = callee(t)
    if not c:
        return None
    return c.get("rpath") or c["path"]


def cpaths(t):
    c = callee(t)
    if not c:
        return ()
    return tuple(x for x in (c.get("rpath"), c.get("path"), c.get("rfull"), c.get("full")) if x)


def cmatch(t, rx):
    return any(re.search(rx, p) for p in cpaths(t))


# std traits whose crate-local impls are treated as atomic events (not inlined)
_NOINLINE_TRAITS = re.compile(
    r"^(std|core)::(clone::Clone|fmt::(Debug|Display)|cmp::(PartialEq|Eq|PartialOrd|Ord)|hash::Hash|"
    r"default::Default|error::Error|convert::(From|Into|AsRef)|ops::(Deref|DerefMut))\b")

# provenance erasure: the result "is" the first argument
_ERASE = re.compile(
    r"^(std|core)::(ops::Deref::deref|ops::DerefMut::deref_mut|convert::AsRef::as_ref|convert::AsMut::as_mut|"
    r"borrow::Borrow::borrow|borrow::BorrowMut::borrow_mut|clone::Clone::clone|convert::Into::into|convert::From::from|"
    r"option::Option::<T>::(as_ref|as_mut|cloned|copied|unwrap|expect|as_deref)|option::Option::<&T>::(cloned|copied)|"
    r"option::Option::<&mut T>::(cloned|copied)|"
    r"result::Result::<T, E>::(unwrap|expect|as_ref|as_mut)|result::Result::<&T, E>::(copied|cloned)|result::Result::<&mut T, E>::(copied|cloned)|"
    r"sync::(RwLock|Mutex|poison::rwlock::RwLock|poison::mutex::Mutex)::<T>::(read|write|lock)|"
    r"sync::Arc::<T(, A)?>::(as_ref|clone)|slice::<impl \[T\]>::iter|vec::Vec::<T, A>::(as_slice|as_mut_slice)|"
    r"iter::(IntoIterator::into_iter|Iterator::copied|Iterator::cloned))$")

# tag transfer tables for std calls: path regex -> function(tag variant of arg0) -> variant of result
_PRESERVE = re.compile(
    r"(result::Result::<T, E>::(map_err|map|as_ref|as_mut|inspect_err|or_else)|result::Result::<&(mut )?T, E>::(copied|cloned)|ErrorContextExt::context|"
    r"option::Option::<T>::(map|as_ref|as_mut|cloned|copied|inspect)|clone::Clone::clone)$")
# combinators that call their closure at most once, depending on the variant of the receiver:
#   name -> (variants that trigger the closure, result when skipped, result after the closure)
#   results: "recv" = the receiver's variant, "closure" = the closure's result tag, "Ok"/"Err"/"Some"/"None" fixed, None = not a tagged value
_COMBINATORS = {
    "and_then": (("Ok", "Some"), "recv", "closure"),
    "map": (("Ok", "Some"), "recv", "pos"),
    "inspect": (("Ok", "Some"), "recv", "pos"),
    "filter": (("Some",), "recv", "filter"),
    "is_some_and": (("Some",), "false", "closure"),
    "is_ok_and": (("Ok",), "false", "closure"),
    "is_none_or": (("Some",), "true", "closure"),
    "map_err": (("Err",), "recv", "neg"),
    "inspect_err": (("Err",), "recv", "neg"),
    "or_else": (("Err", "None"), "recv", "closure"),
    "unwrap_or_else": (("Err", "None"), None, None),
    "ok_or_else": (("None",), "Ok", "Err"),
    "map_or": (("Ok", "Some"), None, None),
}
_COMBINATOR_RX = re.compile(r"(option::Option::<T>|result::Result::<T, E>)::(%s)$" % "|".join(_COMBINATORS))
_SHORT_CIRCUIT = re.compile(r"iter::Iterator>?::(try_fold|try_for_each)$")
_OK_OR = re.compile(r"option::Option::<T>::(ok_or|ok_or_else)$")
_TO_OPT = re.compile(r"result::Result::<T, E>::ok$")
_IS = {
    "is_ok": {"Ok": "true", "Err": "false"},
    "is_err": {"Ok": "false", "Err": "true"},
    "is_some": {"Some": "true", "None": "false"},
    "is_none": {"Some": "false", "None": "true"},
}


class Inst:
    __slots__ = ("id", "key", "body", "parent", "call_bb", "depth", "kind", "closure_map", "create_site", "type_map")

    def __init__(self, id, key, body, parent, call_bb, depth, kind):
        self.id = id
        self.key = key
        self.body = body
        self.parent = parent
        self.call_bb = call_bb
        self.depth = depth
        self.kind = kind            # 'entry' | 'call' | 'closure'
        self.closure_map = {}       # generic param name -> closure key
        self.type_map = {}          # generic param name -> concrete type (as printed at the inlining call site)
        self.create_site = None     # for closures: (inst, bb, stmt index) of the aggregate


class Program:
    def __init__(self, facts):
        self.facts = facts
        self.bodies = facts.bodies
        self._defs = {}
        self._live = {}

    def stored_fields(self):
        """(adt, field) pairs that some statement assigns to, or takes a `&mut` of, after construction"""
        sf = getattr(self, "_stored_fields", None)
        if sf is not None:
            return sf
        sf = set()

        def note(proj):
            for el in proj:
                if isinstance(el, dict) and "f" in el and el.get("adt"):
                    sf.add((el["adt"], el.get("n")))
        for b in self.bodies.values():
            for blk in b.get("blocks", []):
                for st in blk.get("stmts", []):
                    if st.get("k") in ("assign", "setdiscr"):
                        fl = [el for el in st["p"]["proj"] if isinstance(el, dict) and "f" in el]
                        if fl:
                            note(fl[-1:])          # the field actually written
                        rv = st.get("rv") or {}
                        if rv.get("k") in ("ref", "rawptr") and rv.get("mut"):
                            note([el for el in rv["p"]["proj"] if isinstance(el, dict) and "f" in el])
                t = blk.get("term") or {}
                if t.get("k") == "call":
                    fl = [el for el in (t.get("dest") or {}).get("proj", []) if isinstance(el, dict) and "f" in el]
                    if fl:
                        note(fl[-1:])
        self._stored_fields = sf
        return sf

    def inlinable(self, c):
        """c: callee object of a call terminator."""
        k = c.get("rkey")
        if not k or k not in self.bodies:
            return None
        b = self.bodies[k]
        if b["kind"] == "Closure":
            return k
        it = b.get("impl_trait")
        if it and _NOINLINE_TRAITS.search(it):
            return None
        if k.startswith("testing::") or k.startswith("<testing::"):
            return None
        return k

    def trait_impl(self, trait, method, concrete_ty):
        """key of the crate-local `impl <trait> for <concrete type>`'s method, or None"""
        base = re.sub(r"<.*$", "", concrete_ty.lstrip("&").replace("mut ", ""))
        if _NOINLINE_TRAITS.search(trait):
            return None
        for k, b in self.bodies.items():
            if b.get("impl_trait") == trait and k.endswith("::" + method) and re.sub(r"<.*$", "", b.get("impl_self") or "") == base:
                return k
        return None

    def liveness(self, key):
        """(live_in per block, address-taken locals) for a body (non-cleanup blocks)."""
        r = self._live.get(key)
        if r is not None:
            return r
        b = self.bodies[key]
        nb = len(b["blocks"])
        use = [set() for _ in range(nb)]
        dfn = [set() for _ in range(nb)]
        addr = set()
        succ = [[] for _ in range(nb)]

        def rd_place(p, bi):
            if p["l"] not in dfn[bi]:
                use[bi].add(p["l"])
            for el in p["proj"]:
                if isinstance(el, dict) and "idx" in el and el["idx"] not in dfn[bi]:
                    use[bi].add(el["idx"])

        def rd_op(o, bi):
            if o["k"] in ("copy", "move"):
                rd_place(o["p"], bi)

        def wr_place(p, bi):
            if p["proj"]:
                rd_place(p, bi)
            else:
                dfn[bi].add(p["l"])

        for bi, blk in enumerate(b["blocks"]):
            if blk["cleanup"]:
                continue
            for s in blk["stmts"]:
                if s["k"] == "assign":
                    rv = s["rv"]
                    k = rv["k"]
                    if k in ("use", "cast", "unop", "repeat"):
                        rd_op(rv["a"], bi)
                    elif k in ("ref", "rawptr"):
                        addr.add(rv["p"]["l"])
                        rd_place(rv["p"], bi)
                    elif k == "binop":
                        rd_op(rv["a"], bi)
                        rd_op(rv["b"], bi)
                    elif k == "discr":
                        rd_place(rv["p"], bi)
                    elif k == "agg":
                        for f in rv["fields"]:
                            rd_op(f, bi)
                    wr_place(s["p"], bi)
                elif s["k"] == "setdiscr":
                    rd_place(s["p"], bi)
            t = blk["term"]
            k = t["k"]
            if k == "call":
                if "callee_op" in t:
                    rd_op(t["callee_op"], bi)
                for a in t["args"]:
                    rd_op(a, bi)
                wr_place(t["dest"], bi)
                if t.get("target") is not None:
                    succ[bi].append(t["target"])
            elif k == "switch":
                rd_op(t["discr"], bi)
                succ[bi] = [x["bb"] for x in t["targets"]] + [t["otherwise"]]
            elif k == "assert":
                rd_op(t["cond"], bi)
                for o in t["ops"]:
                    rd_op(o, bi)
                succ[bi].append(t["target"])
            elif k == "drop":
                rd_place(t["p"], bi)
                succ[bi].append(t["target"])
            elif k == "goto":
                succ[bi].append(t["target"])
            elif k == "return":
                use[bi].add(0)
        live_in = [set() for _ in range(nb)]
        changed = True
        while changed:
            changed = False
            for bi in range(nb - 1, -1, -1):
                out = set()
                for m in succ[bi]:
                    out |= live_in[m]
                li = use[bi] | (out - dfn[bi])
                if li != live_in[bi]:
                    live_in[bi] = li
                    changed = True
        r = (live_in, addr)
        self._live[key] = r
        return r

    def defs(self, key):
        """local -> list of def sites in non-cleanup blocks: ('s', bb, i) or ('c', bb)."""
        d = self._defs.get(key)
        if d is not None:
            return d
        d = defaultdict(list)
        b = self.bodies[key]
        for bi, blk in enumerate(b["blocks"]):
            if blk["cleanup"]:
                continue
            for si, s in enumerate(blk["stmts"]):
                if s["k"] in ("assign", "setdiscr"):
                    pr = s["p"]["proj"]
                    if pr and pr[0] == "deref":
                        continue        # a write through a pointer does not redefine the pointer
                    d[s["p"]["l"]].append(("s", bi, si))
            t = blk["term"]
            if t["k"] == "call":
                pr = t["dest"]["proj"]
                if not (pr and pr[0] == "deref"):
                    d[t["dest"]["l"]].append(("c", bi))
        self._defs[key] = d
        return d


# --------------------------------------------------------------------------------------
# Entry graph
# --------------------------------------------------------------------------------------

class EGraph:
    """CFG of an entry with crate-local callees inlined by cloning.  Node = (inst id, bb)."""

    def __init__(self, prog, entry_key, no_inline=None, inline_closures=True):
        self.prog = prog
        self.entry_key = entry_key
        self.no_inline = no_inline or (lambda key: False)
        self.inline_closures = inline_closures
        self.insts = []
        self.succ = defaultdict(list)   # node -> [(node, label)]
        self.pred = defaultdict(list)
        self.callee_inst = {}           # call node -> Inst (inlined)
        self.closure_insts = defaultdict(list)   # event node -> [Inst] (maybe-called closures)
        self.exits = []
        self._prov_memo = {}
        self._slot_memo = {}
        root = self._new_inst(entry_key, None, None, 0, "entry")
        self.entry = (root.id, 0)
        self._build(root)
        self.nodes = sorted({n for n in self.succ} | {m for v in self.succ.values() for m, _ in v} | {self.entry})

    # ---- construction ---------------------------------------------------------------
    def _new_inst(self, key, parent, call_bb, depth, kind):
        if depth > MAX_DEPTH:
            raise Unresolved("inline depth bound %d exceeded at %s" % (MAX_DEPTH, key))
        p = parent
        while p is not None:
            if p.key == key:
                raise Unresolved("recursion through %s" % key)
            p = p.parent
        i = Inst(len(self.insts), key, self.prog.bodies[key], parent, call_bb, depth, kind)
        self.insts.append(i)
        return i

    def _edge(self, a, b, label=None):
        self.succ[a].append((b, label))
        self.pred[b].append((a, label))

    def term(self, n):
        return self.insts[n[0]].body["blocks"][n[1]]["term"]

    def stmts(self, n):
        return self.insts[n[0]].body["blocks"][n[1]]["stmts"]

    def inst(self, n):
        return self.insts[n[0]]

    def _closure_keys(self, c, where=None):
        out = []
        for g in c.get("rgargs") or c.get("gargs") or []:
            if "closure" in g and g["closure"] in self.prog.bodies:
                out.append(g["closure"])
            elif "fndef" in g and g["fndef"] in self.prog.bodies and self.prog.inlinable({"rkey": g["fndef"]}):
                # a crate-local fn item handed to an adaptor (`.any(WriteRequest::wants_sync)`) is called like a closure
                out.append(g["fndef"])
            elif "fndef" in g and g["fndef"] not in self.prog.bodies and re.match(r"^(std|core|alloc|fs2|codeq|byteorder)::", g["fndef"]) \
                    and not re.search(r"(^|::)(Some|Ok|Err|Box|Arc|Rc)(::new)?$|::from$|::into$|::clone$|::to_string$|::to_owned$|::default$", g["fndef"]):
                # a std / dependency function handed to an adaptor (`paths.into_iter().try_for_each(fs::remove_file)`): the adaptor calls
                # it per element, so it is an event of this program although no call terminator names it: a one-call shim body
                k = self._shim_body(g, where)
                if k:
                    out.append(k)
        return out

    def _local_iter_next(self, ty):
        """key of the crate's `impl Iterator for <type>`::next when `ty` is that type or an adaptor stack around it (`Take<Enumerate<X>>`)"""
        names = re.findall(r"([A-Za-z_][\w:]*)<", ty) + [re.sub(r"<.*$", "", ty)]
        for nm in names:
            for k, b in self.prog.bodies.items():
                if b.get("impl_trait") == "std::iter::Iterator" and k.endswith("::next") and re.sub(r"<.*$", "", b.get("impl_self") or "") == nm \
                        and not k.startswith(("testing::", "<testing::")):
                    return k
        return None

    def _shim_body(self, g, where):
        m = re.match(r"^(?:for<[^>]*> )?(?:unsafe )?fn\((.*)\)(?: -> (.*))? \{", g.get("s", ""))
        if not m:
            return None
        params, depth, cur = [], 0, ""
        for ch in m.group(1):
            if ch in "<([":
                depth += 1
            elif ch in ">)]":
                depth -= 1
            if ch == "," and depth == 0:
                params.append(cur.strip())
                cur = ""
            else:
                cur += ch
        if cur.strip():
            params.append(cur.strip())
        ret = (m.group(2) or "()").strip()
        key = "<shim>::" + g["fndef"] + "::" + str(len(params))
        if key not in self.prog.bodies:
            f, ln = (where or ("<shim>", 0))
            call = {"k": "call", "callee": {"path": g["fndef"], "full": g["fndef"], "local": False, "gargs": [], "rkind": "item",
                                            "rpath": g["fndef"], "rfull": g["fndef"], "rlocal": False, "rgargs": []},
                    "args": [{"k": "move", "p": {"l": i + 1, "proj": []}} for i in range(len(params))],
                    "dest": {"l": 0, "proj": []}, "dest_ty": ret, "target": 1, "file": f, "line": ln}
            self.prog.bodies[key] = {"key": key, "path": key, "kind": "Fn", "file": f, "line": ln, "line_hi": ln, "argc": len(params),
                                     "vis": "Private", "pub": False, "sig": g.get("s", ""), "generics": [], "ret_ty": ret, "promoted": [],
                                     "locals": [{"ty": ret}] + [{"ty": p_} for p_ in params],
                                     "blocks": [{"cleanup": False, "stmts": [], "term": call},
                                                {"cleanup": False, "stmts": [], "term": {"k": "return", "file": f, "line": ln}}]}
        return key

    def _build(self, inst):
        body = inst.body
        rets = []
        for bi, blk in enumerate(body["blocks"]):
            if blk["cleanup"]:
                continue
            n = (inst.id, bi)
            t = blk["term"]
            k = t["k"]
            if k == "goto":
                self._edge(n, (inst.id, t["target"]))
            elif k == "switch":
                for tg in t["targets"]:
                    self._edge(n, (inst.id, tg["bb"]), ("sw", tg["v"], tg.get("variant")))
                self._edge(n, (inst.id, t["otherwise"]), ("sw", "otherwise", None))
            elif k in ("drop", "assert"):
                self._edge(n, (inst.id, t["target"]))
            elif k == "return":
                rets.append(n)
            elif k == "call":
                c = t.get("callee")
                tgt = t.get("target")
                sub_key = None
                if c:
                    sub_key = self.prog.inlinable(c)
                    # generic closure call: FnOnce::call_once on a type parameter bound at inlining
                    if not sub_key and re.search(r"ops::(FnOnce::call_once|FnMut::call_mut|Fn::call)$", c["path"]):
                        g0 = (c.get("gargs") or [{}])[0]
                        pn = g0.get("param")
                        if pn and pn in inst.closure_map:
                            sub_key = inst.closure_map[pn]
                    # trait method on a type parameter that the inlining call site instantiated with a crate-local type
                    if not sub_key and c.get("trait") and not c.get("rkey"):
                        g0 = (c.get("gargs") or [{}])[0]
                        pn = g0.get("param") or c.get("self_ty")
                        conc = inst.type_map.get(pn)
                        if conc:
                            sub_key = self.prog.trait_impl(c["trait"], c["path"].split("::")[-1], conc)
                    # `x.into()` is std's blanket `Into` calling `From::from`: when the crate implements that From, it is a crate-local call
                    if not sub_key and re.search(r"convert::Into::into$", c["path"]):
                        ga_ = c.get("rgargs") or c.get("gargs") or []
                        if len(ga_) == 2 and ga_[0].get("s") and ga_[1].get("s"):
                            src_ty, dst_ty = ga_[0]["s"], ga_[1]["s"]
                            want_trait = "std::convert::From<%s>" % src_ty
                            for k_, b_ in self.prog.bodies.items():
                                if b_.get("impl_trait") == want_trait and b_.get("impl_self") == dst_ty and k_.endswith("::from") \
                                        and re.sub(r"<.*$", "", dst_ty) in self.prog.facts.adts and not re.search(r"(^|::)errors::", dst_ty) \
                                        and not k_.startswith(("testing::", "<testing::")):
                                    sub_key = k_
                                    break
                    if sub_key and self.no_inline(sub_key):
                        sub_key = None
                if sub_key:
                    kind = "closure" if self.prog.bodies[sub_key]["kind"] == "Closure" else "call"
                    sub = self._new_inst(sub_key, inst, bi, inst.depth + 1, kind)
                    # bind closure-typed generic args
                    gnames = sub.body.get("generics", [])
                    gvals = c.get("rgargs") or c.get("gargs") or []
                    if len(gnames) == len(gvals):
                        for nm, gv in zip(gnames, gvals):
                            if "closure" in gv:
                                sub.closure_map[nm] = gv["closure"]
                            elif gv.get("param") and gv["param"] in inst.closure_map:
                                sub.closure_map[nm] = inst.closure_map[gv["param"]]
                            if gv.get("param") and gv["param"] in inst.type_map:
                                sub.type_map[nm] = inst.type_map[gv["param"]]
                            elif gv.get("s") and not gv.get("param") and "closure" not in gv:
                                sub.type_map[nm] = gv["s"]
                    self.callee_inst[n] = sub
                    self._edge(n, (sub.id, 0), ("call",))
                    sub_rets = self._build(sub)
                    if tgt is not None:
                        for r in sub_rets:
                            self._edge(r, (inst.id, tgt), ("ret", n))
                else:
                    # event; closures handed to it may be called 0..n times at this point
                    cks = self._closure_keys(c, (t.get("file") or body.get("file"), t.get("line") or body.get("line"))) if (c and self.inline_closures) else []
                    # a crate-local iterator driven by a std adaptor / consumer (`records_iter.find_map(..)`, `.collect()`): std calls the
                    # crate's own `next` once per element - attach it like a callback so that what it does is part of this graph
                    if c and self.inline_closures and c.get("trait") == "std::iter::Iterator" and not c["path"].endswith("::next"):
                        g0 = (c.get("rgargs") or c.get("gargs") or [{}])[0]
                        conc = inst.type_map.get(g0.get("param")) if g0.get("param") else g0.get("s")
                        if conc:
                            nk = self._local_iter_next(conc)
                            if nk and nk not in cks and not self.no_inline(nk):
                                cks = [nk] + list(cks)
                    is_spawn = bool(c and re.search(r"thread::(Builder::spawn|spawn)", c["path"]))
                    if tgt is not None:
                        self._edge(n, (inst.id, tgt))
                    if cks and not is_spawn and tgt is not None:
                        for ck in cks:
                            if self.no_inline(ck):
                                continue
                            sub = self._new_inst(ck, inst, bi, inst.depth + 1, "closure")
                            self.closure_insts[n].append(sub)
                            self._edge(n, (sub.id, 0), ("cl_enter",))
                            sub_rets = self._build(sub)
                            for r in sub_rets:
                                self._edge(r, (inst.id, tgt), ("cl_ret", n))
                                self._edge(r, (sub.id, 0), ("cl_again",))
            elif k in ("unreachable", "resume", "terminate"):
                pass
            else:
                raise Unresolved("terminator %s in %s" % (k, inst.key))
        if inst.kind == "entry":
            self.exits = rets
        return rets

    # ---- description ----------------------------------------------------------------
    def where(self, n, si=None):
        inst = self.insts[n[0]]
        blk = inst.body["blocks"][n[1]]
        x = blk["term"] if si is None or si >= len(blk["stmts"]) else blk["stmts"][si]
        f = x.get("file", "?")
        if "/src/" in f:
            f = "src/" + f.split("/src/", 1)[1]
        return "%s:%s" % (f, x.get("line", "?"))

    def chain(self, n):
        """inlining chain of a node, outermost first (function keys)."""
        out = []
        i = self.insts[n[0]]
        while i is not None:
            out.append(i.key)
            i = i.parent
        return list(reversed(out))

    def call_nodes(self, rx=None, pred=None):
        out = []
        for n in self.nodes:
            t = self.term(n)
            if t["k"] != "call":
                continue
            if n in self.callee_inst:
                continue
            if rx is not None and not cmatch(t, rx):
                continue
            if pred is not None and not pred(n, t):
                continue
            out.append(n)
        return out

    def inlined_call_nodes(self, rx):
        return [n for n, sub in self.callee_inst.items() if re.search(rx, sub.key)]

    # ---- provenance -----------------------------------------------------------------
    def _promoted(self, inst, idx):
        """instance for promoted constant #idx of inst's body"""
        key = "%s::promoted[%d]" % (inst.key, idx)
        cache = self.__dict__.setdefault("_prom_insts", {})
        if (inst.id, idx) in cache:
            return cache[(inst.id, idx)]
        proms = inst.body.get("promoted") or []
        if idx >= len(proms):
            return None
        if key not in self.prog.bodies:
            pb = dict(proms[idx])
            pb.update({"key": key, "kind": "Promoted", "argc": 0, "file": inst.body["file"], "line": inst.body["line"]})
            self.prog.bodies[key] = pb
        sub = Inst(len(self.insts), key, self.prog.bodies[key], inst, None, inst.depth + 1, "promoted")
        self.insts.append(sub)
        cache[(inst.id, idx)] = sub
        return sub

    def prov_operand(self, inst, o):
        if o["k"] == "const":
            m = re.search(r"promoted\[(\d+)\]", o.get("v", ""))
            if m:
                sub = self._promoted(inst, int(m.group(1)))
                if sub is not None:
                    return self.prov_local(sub, 0)
            if "fn" in o:
                k = o["fn"].get("rkey") or o["fn"].get("key")
                if k and k in self.prog.bodies:
                    return ("closure", k, ())      # a crate-local fn item used as a value: a closure without captures
                return ("fn", o["fn"].get("rpath") or o["fn"]["path"])
            if "int" in o:
                return ("const", o["int"])
            return ("const", o["v"])
        if o["k"] in ("copy", "move"):
            return self.prov_place(inst, o["p"])
        return ("opaque", o.get("v"))

    def prov_place(self, inst, p):
        e = self.prov_local(inst, p["l"])
        for el in p["proj"]:
            if el == "deref":
                continue
            if isinstance(el, str):
                e = (el, e)
            elif "f" in el:
                e = self._field(e, el.get("n") or str(el["f"]), el["f"], self._scalar_field(el))
            elif "dc" in el:
                e = ("as", e, el["dc"])
            elif "idx" in el:
                e = ("idx", e, self.prov_local(inst, el["idx"]))
            elif "cidx" in el:
                e = ("idx", e, ("const", ("-" if el.get("from_end") else "") + str(el["cidx"])))
        return e

    _SCALAR = re.compile(r"^(u8|u16|u32|u64|u128|usize|i8|i16|i32|i64|i128|isize|bool|char|f32|f64|std::option::Option<.*>)$")

    def _scalar_field(self, el):
        """is this field of a crate-local struct a plain value (integer/bool/Option) that may be overwritten later?
        Such fields are NOT resolved to the value they had when the struct was built."""
        adt = el.get("adt")
        if not adt or adt.startswith("closure:"):
            return False
        a = self.prog.facts.adts.get(adt)
        if not a or a.get("is_enum"):
            return False
        for f in a["variants"][0]["fields"]:
            if f["name"] == el.get("n"):
                if not self._SCALAR.match(f["ty"]):
                    return False
                # a plain field that no statement of the crate ever stores to or borrows mutably keeps the value it was built with
                return (adt, el.get("n")) in self.prog.stored_fields()
        return False

    def _field(self, base, name, idx, scalar=False):
        # normalisations
        if base[0] == "as":
            inner, var = base[1], base[2]
            if inner[0] == "branch":
                if var == "Continue":
                    r = self._ret_payload(inner[1], None)
                    if r is not None:
                        return r
                    return ("okval", inner[1])
                if var == "Break":
                    return ("residual", inner[1])
            if var in ("Ok", "Some") and idx == 0:
                r = self._ret_payload(inner, var)
                if r is not None:
                    return r
                return ("okval", inner)
            if var == "Err" and idx == 0:
                return ("errval", inner)
        if base[0] == "agg" and not scalar:
            # projection of a known aggregate (object identity of containers / handles is stable; plain values are not)
            fields = base[3]
            if idx < len(fields):
                return fields[idx]
        if base[0] == "closure_env":
            ci = self.insts[base[1]]
            site = self._closure_creation(ci)
            if site is not None:
                pinst, rv = site
                if idx < len(rv["fields"]):
                    return self.prov_operand(pinst, rv["fields"][idx])
            return ("upvar", base[1], name)
        return ("field", base, name)

    def _ret_payload(self, e, var):
        """for e = ('ret', key, args, call node): if the inlined callee builds its Ok/Some result in exactly one
        aggregate, the provenance of that payload"""
        if not (isinstance(e, tuple) and e and e[0] == "ret" and len(e) > 3):
            return None
        sub = self.callee_inst.get(e[3])
        if sub is None:
            return None
        found = []
        for d in self.prog.defs(sub.key).get(0, []):
            if d[0] != "s":
                continue
            st = sub.body["blocks"][d[1]]["stmts"][d[2]]
            if st["k"] == "assign" and not st["p"]["proj"] and st["rv"]["k"] == "agg" and st["rv"].get("ak") == "adt" \
                    and st["rv"].get("variant") in (("Ok", "Some") if var is None else (var,)) and st["rv"]["fields"]:
                found.append(st["rv"]["fields"][0])
        if len(found) == 1:
            return self.prov_operand(sub, found[0])
        return None

    def _closure_creation(self, ci):
        """find the aggregate creating closure ci.key in its ancestor instances."""
        p = ci.parent
        while p is not None:
            for blk in p.body["blocks"]:
                for s in blk["stmts"]:
                    if s["k"] == "assign" and s["rv"]["k"] == "agg" and s["rv"].get("closure") == ci.key:
                        return (p, s["rv"])
            p = p.parent
        return None

    def prov_local(self, inst, l):
        key = (inst.id, l)
        if key in self._prov_memo:
            v = self._prov_memo[key]
            if v is None:
                return ("var", inst.id, l)     # cycle
            return v
        self._prov_memo[key] = None
        v = self._prov_local(inst, l)
        sw = self._swapped_with(inst, l, v)
        if sw is not None:
            v = sw
        else:
            acc = self._accumulated_string(inst, l, v)
            if acc is not None:
                v = acc
        self._prov_memo[key] = v
        return v

    def _accumulated_string(self, inst, l, v):
        """a String that starts empty and is filled by `push` / `push_str` / `write!` in the same function (a hand-written formatter): its value
        depends on everything that was pushed - kept as the arguments of one synthetic call so that dependence on an input stays visible"""
        if not (isinstance(v, tuple) and v and v[0] == "call" and re.search(r"string::String::(new|with_capacity)$", str(v[1]))):
            return None
        body = inst.body
        parts = []
        for bi, blk in enumerate(body["blocks"]):
            if blk.get("cleanup"):
                continue
            t = blk["term"]
            if t["k"] != "call" or not t.get("callee") or not t.get("args"):
                continue
            if not re.search(r"string::String::(push|push_str|insert|insert_str|extend)$|fmt::Write::(write_str|write_fmt|write_char)$|iter::Extend", t["callee"]["path"]):
                continue
            a0 = t["args"][0]
            if a0["k"] not in ("copy", "move") or a0["p"]["proj"]:
                continue
            r = self._pointee(inst, a0["p"]["l"])
            guard = 0
            while r is not None and r[1]["proj"] == ["deref"] and guard < 8:
                guard += 1
                r = self._pointee(r[0], r[1]["l"])
            if r is None or r[0] is not inst or r[1]["l"] != l or r[1]["proj"]:
                continue
            for a in t["args"][1:]:
                parts.append(self.prov_operand(inst, a))
        if not parts:
            return None
        return ("call", "accumulated::String", tuple(parts), v[3] if len(v) > 3 else None)

    _EMPTY_CTOR = re.compile(r"(Vec::<T>|vec::Vec::<T>|String|string::String)::new$|default::Default::default$|Vec::<T, A>::new_in$")

    def _swapped_with(self, inst, l, v):
        """`let mut fresh = Vec::new(); mem::swap(&mut fresh, &mut X); fresh` is `mem::take(&mut X)`: a local whose only definition is an
        empty constructor and whose address goes into mem::swap holds, afterwards, what the other place held"""
        if not (isinstance(v, tuple) and v and v[0] == "call" and self._EMPTY_CTOR.search(str(v[1]))):
            return None
        body = inst.body
        for bi, blk in enumerate(body["blocks"]):
            if blk.get("cleanup"):
                continue
            t = blk["term"]
            if t["k"] != "call" or not t.get("callee") or not re.search(r"mem::swap$", t["callee"]["path"]) or len(t["args"]) != 2:
                continue
            pts = []
            for a in t["args"]:
                r = None
                if a["k"] in ("copy", "move") and not a["p"]["proj"]:
                    r = self._pointee(inst, a["p"]["l"])
                    guard = 0
                    while r is not None and r[1]["proj"] == ["deref"] and guard < 8:      # &mut *(&mut x)
                        guard += 1
                        r = self._pointee(r[0], r[1]["l"])
                pts.append(r)
            for i in (0, 1):
                me, other_arg = pts[i], t["args"][1 - i]
                if me is not None and me[0] is inst and me[1]["l"] == l and not me[1]["proj"] and other_arg["k"] in ("copy", "move"):
                    return ("call", "std::mem::take", (self.prov_place(inst, {"l": other_arg["p"]["l"], "proj": ["deref"]}),), (inst.id, bi))
        return None

    def _prov_local(self, inst, l):
        body = inst.body
        argc = body["argc"]
        defs = self.prog.defs(inst.key).get(l, [])
        if 1 <= l <= argc and not defs:
            if inst.kind == "call":
                pt = inst.parent.body["blocks"][inst.call_bb]["term"]
                args = pt["args"]
                c = pt.get("callee") or {}
                if re.search(r"ops::(FnOnce::call_once|FnMut::call_mut|Fn::call)$", c.get("path", "")) \
                        and inst.body["kind"] == "Closure":
                    # call_once(closure, (args,)) : _1 = env, _2.. = tuple fields
                    if l == 1:
                        return ("closure_env", inst.id)
                    if len(args) > 1:
                        tup = self.prov_operand(inst.parent, args[1])
                        if isinstance(tup, tuple) and tup and tup[0] == "agg" and tup[1] == "tuple" and l - 2 < len(tup[3]):
                            return tup[3][l - 2]      # the closure is called right here with these values: its parameter IS that value
                    return ("cl_arg", inst.id, l)
                if l - 1 < len(args):
                    return self.prov_operand(inst.parent, args[l - 1])
            if inst.kind == "closure":
                if inst.parent is not None and inst.call_bb is not None and inst.body["kind"] == "Closure":
                    pt0 = inst.parent.body["blocks"][inst.call_bb]["term"]
                    c0 = pt0.get("callee") or {}
                    if re.search(r"ops::(FnOnce::call_once|FnMut::call_mut|Fn::call)$", c0.get("path", "")) and len(pt0.get("args", [])) > 1 and l >= 2:
                        # `f(a, b)` on a closure-typed parameter bound at inlining: the closure runs right here with these values
                        tup = self.prov_operand(inst.parent, pt0["args"][1])
                        if isinstance(tup, tuple) and tup and tup[0] == "agg" and tup[1] == "tuple" and l - 2 < len(tup[3]):
                            return tup[3][l - 2]
                # the argument of a closure run by a single-call Option/Result combinator is the receiver's payload
                first = 2 if inst.body["kind"] == "Closure" else 1
                if l == first and inst.parent is not None:
                    pt = inst.parent.body["blocks"][inst.call_bb]["term"]
                    c_ = pt.get("callee") or {}
                    m_ = _COMBINATOR_RX.search(c_.get("path", "")) if pt.get("args") else None
                    if m_ and len(self.closure_insts.get((inst.parent.id, inst.call_bb), [])) == 1 and m_.group(2) != "map_or":
                        trig = _COMBINATORS[m_.group(2)][0]
                        recv = self.prov_operand(inst.parent, pt["args"][0])
                        return ("okval", recv) if ("Ok" in trig or "Some" in trig) else ("errval", recv)
                if inst.body["kind"] != "Closure":
                    return ("cl_arg", inst.id, l + 1)      # a fn item used as a callback has no environment argument
                if l == 1:
                    return ("closure_env", inst.id)
                return ("cl_arg", inst.id, l)
            if inst.kind == "entry" and inst.body["kind"] == "Closure" and l == 1:
                return ("closure_env", inst.id)
            return ("arg", l)
        if len(defs) == 1:
            d = defs[0]
            if d[0] == "s":
                s = body["blocks"][d[1]]["stmts"][d[2]]
                if s["k"] == "assign" and not s["p"]["proj"]:
                    return self.prov_rvalue(inst, s["rv"], (inst.id, d[1], d[2]))
            else:
                t = body["blocks"][d[1]]["term"]
                if not t["dest"]["proj"]:
                    return self.prov_call(inst, d[1])
        return ("var", inst.id, l)

    def prov_rvalue(self, inst, rv, site):
        k = rv["k"]
        if k == "use":
            return self.prov_operand(inst, rv["a"])
        if k in ("ref", "rawptr"):
            return self.prov_place(inst, rv["p"])
        if k == "cast":
            return ("cast", self.prov_operand(inst, rv["a"]))
        if k == "binop":
            return ("binop", rv["op"], self.prov_operand(inst, rv["a"]), self.prov_operand(inst, rv["b"]))
        if k == "unop":
            return ("unop", rv["op"], self.prov_operand(inst, rv["a"]))
        if k == "discr":
            return ("discr", self.prov_place(inst, rv["p"]))
        if k == "agg":
            fs = tuple(self.prov_operand(inst, f) for f in rv["fields"])
            if rv["ak"] == "adt":
                return ("agg", rv["adt"], rv["variant"], fs)
            if rv["ak"] == "closure":
                return ("closure", rv["closure"], fs)
            return ("agg", rv["ak"], "", fs)
        if k == "repeat":
            return ("repeat", self.prov_operand(inst, rv["a"]))
        return ("opaque", site)

    def prov_call(self, inst, bb):
        n = (inst.id, bb)
        t = inst.body["blocks"][bb]["term"]
        sub = self.callee_inst.get(n)
        if sub is not None and getattr(self, "opaque_rx", None) and re.search(self.opaque_rx, sub.key):
            # a read of mutable state through an accessor: keep the call (and thereby the moment of the read) as a node
            return ("call", sub.key, tuple(self.prov_operand(inst, a) for a in t["args"]), n)
        if sub is not None:
            d0 = self.prog.defs(sub.key).get(0, [])
            if len(d0) == 1:
                return self.prov_local(sub, 0)
            return ("ret", sub.key, tuple(self.prov_operand(inst, a) for a in t["args"]), n)
        c = t.get("callee")
        if not c:
            return ("icall", n)
        path = c.get("rpath") or c["path"]
        args = tuple(self.prov_operand(inst, a) for a in t["args"])
        if args and (_ERASE.search(c["path"]) or _ERASE.search(path)):
            if getattr(self, "keep_clones", False) and re.search(r"clone::Clone>?::clone$", c["path"]):
                return ("call", "clone", args, n)
            return args[0]
        if re.search(r"ops::Try::branch$", c["path"]):
            return ("branch", args[0])
        if re.search(r"ops::FromResidual<.*>::from_residual$|ops::FromResidual::from_residual$", c["path"]):
            a = args[0]
            if a[0] == "residual":
                return ("err_of", a[1])
            return ("err_of", a)
        return ("call", c["path"] if not c.get("rpath") else path, args, n)

    def with_clones(self):
        """context manager: provenance that keeps Clone::clone calls as identifiable nodes (separate memo)"""
        g = self

        class _C:
            def __enter__(self_):
                self_.saved = g._prov_memo
                g._prov_memo = {}
                g.keep_clones = True
                return g

            def __exit__(self_, *a):
                g._prov_memo = self_.saved
                g.keep_clones = False
        return _C()

    def with_opaque(self, rx):
        """context manager: inlined callees whose key matches rx are not looked through; their results stay ('call', key, args, node)"""
        g = self

        class _C:
            def __enter__(self_):
                self_.saved = g._prov_memo
                g._prov_memo = {}
                g.opaque_rx = rx
                return g

            def __exit__(self_, *a):
                g._prov_memo = self_.saved
                g.opaque_rx = None
        return _C()

    # ---- slots (memory locations for tags) ------------------------------------------
    def slot_of(self, inst, p):
        """canonical (inst id, local, field path) of a place, following references
        through single-def ref temporaries and call arguments; None when unknown."""
        cur_inst, cur_l, path = inst, p["l"], ()
        proj = list(p["proj"])
        i = 0
        guard = 0
        while i < len(proj):
            el = proj[i]
            guard += 1
            if guard > 200:
                return None
            if el == "deref":
                if path:
                    # a reference stored in a field of a locally built aggregate: `match (a, &b) { (_, Ok(..)) => .. }`
                    fld = self._agg_field_local(cur_inst, cur_l, path[0])
                    if fld is None:
                        return None
                    cur_l, path = fld, path[1:]
                    continue
                r = self._pointee(cur_inst, cur_l)
                if r is None and not path and self._is_symbolic_arg(cur_inst, cur_l):
                    # pointee of a pointer argument of the entry (an object we never see constructed): symbolic slot
                    path = ("*",)
                    i += 1
                    continue
                if r is None or path:
                    return None
                cur_inst, pl = r
                cur_l = pl["l"]
                proj = list(pl["proj"]) + proj[i + 1:]
                i = 0
                continue
            if isinstance(el, dict) and "f" in el:
                path = path + (el.get("n") or str(el["f"]),)
            elif isinstance(el, dict) and "dc" in el:
                pass
            else:
                return None
            i += 1
        return (cur_inst.id, cur_l, path)

    def _agg_field_local(self, inst, l, fname):
        """local moved/copied into field `fname` of the aggregate that is the single definition of local l, else None"""
        defs = self.prog.defs(inst.key).get(l, [])
        if len(defs) != 1 or defs[0][0] != "s":
            return None
        st = inst.body["blocks"][defs[0][1]]["stmts"][defs[0][2]]
        if st["k"] != "assign" or st["p"]["proj"] or st["rv"]["k"] != "agg":
            return None
        rv = st["rv"]
        names = rv.get("fnames") or [str(i) for i in range(len(rv["fields"]))]
        if fname not in names:
            return None
        o = rv["fields"][names.index(fname)]
        if o.get("k") in ("copy", "move") and not o["p"]["proj"]:
            return o["p"]["l"]
        return None

    def _is_symbolic_arg(self, inst, l):
        """l is a pointer-typed parameter of an instance whose caller operand is unknown (entry / maybe-called closure)"""
        if not (1 <= l <= inst.body["argc"]):
            return False
        if self.prog.defs(inst.key).get(l):
            return False
        if inst.kind == "call":
            return False
        ty = inst.body["locals"][l]["ty"]
        return ty.startswith("&")

    def _pointee(self, inst, l):
        """the place a pointer-typed local refers to (through single defs / args)."""
        key = (inst.id, l)
        if key in self._slot_memo:
            return self._slot_memo[key]
        self._slot_memo[key] = None
        r = self._pointee_(inst, l)
        self._slot_memo[key] = r
        return r

    def _pointee_(self, inst, l):
        body = inst.body
        defs = self.prog.defs(inst.key).get(l, [])
        if 1 <= l <= body["argc"] and not defs:
            if inst.kind == "call":
                pt = inst.parent.body["blocks"][inst.call_bb]["term"]
                if l - 1 < len(pt["args"]):
                    o = pt["args"][l - 1]
                    if o["k"] in ("copy", "move") and not o["p"]["proj"]:
                        r = self._pointee(inst.parent, o["p"]["l"])
                        if r is None and self._is_symbolic_arg(inst.parent, o["p"]["l"]):
                            # the caller passes its own (symbolic) pointer argument straight through
                            return (inst.parent, {"l": o["p"]["l"], "proj": ["deref"]})
                        return r
            return None
        if len(defs) != 1:
            return None
        d = defs[0]
        if d[0] == "s":
            s = body["blocks"][d[1]]["stmts"][d[2]]
            if s["k"] != "assign" or s["p"]["proj"]:
                return None
            rv = s["rv"]
            if rv["k"] == "ref":
                pl = rv["p"]
                # &(*x) re-borrow: keep as a place; slot_of resolves the inner deref
                return (inst, pl)
            if rv["k"] == "use" and rv["a"]["k"] in ("copy", "move") and not rv["a"]["p"]["proj"]:
                r = self._pointee(inst, rv["a"]["p"]["l"])
                if r is None and self._is_symbolic_arg(inst, rv["a"]["p"]["l"]):
                    return (inst, {"l": rv["a"]["p"]["l"], "proj": ["deref"]})
                return r
            if rv["k"] == "use" and rv["a"]["k"] in ("copy", "move") and len(rv["a"]["p"]["proj"]) == 2 \
                    and rv["a"]["p"]["proj"][0] == "deref" and isinstance(rv["a"]["p"]["proj"][1], dict) and "f" in rv["a"]["p"]["proj"][1] \
                    and rv["a"]["p"]["l"] == 1 and inst.body.get("kind") == "Closure":
                # a reference captured by a closure (`|w| w.complete(&outcome)`): read back out of the closure's environment; it points
                # where the captured operand pointed when the closure was created
                site = self._closure_creation(inst)
                if site is not None:
                    pinst, crv = site
                    fi = rv["a"]["p"]["proj"][1]["f"]
                    if fi < len(crv["fields"]):
                        co = crv["fields"][fi]
                        if co["k"] in ("copy", "move") and not co["p"]["proj"]:
                            return self._pointee(pinst, co["p"]["l"])
                return None
            if rv["k"] == "use" and rv["a"]["k"] in ("copy", "move") and len(rv["a"]["p"]["proj"]) == 1 \
                    and isinstance(rv["a"]["p"]["proj"][0], dict) and "f" in rv["a"]["p"]["proj"][0]:
                # a reference read back out of a field of a locally built aggregate (tuple patterns)
                el = rv["a"]["p"]["proj"][0]
                fl = self._agg_field_local(inst, rv["a"]["p"]["l"], el.get("n") or str(el["f"]))
                if fl is not None:
                    return self._pointee(inst, fl)
            return None
        else:
            t = body["blocks"][d[1]]["term"]
            c = t.get("callee")
            if c and t["args"] and (_ERASE.search(c["path"]) or _ERASE.search(c.get("rpath") or "")):
                o = t["args"][0]
                if o["k"] in ("copy", "move") and not o["p"]["proj"]:
                    return self._pointee(inst, o["p"]["l"])
            return None


# --------------------------------------------------------------------------------------
# Product with variant tags
# --------------------------------------------------------------------------------------

_ENUM_TYPES = re.compile(r"^(&(mut )?)?(std::result::Result<|std::option::Option<|std::ops::ControlFlow<|bool$)")


def _is_tagged_ty(ty):
    return bool(_ENUM_TYPES.search(ty))


class Product:
    """Reachable (graph node, tag state) pairs.  A tag maps a slot to (variant, origin).
    Edges carry `learn` facts: tuples (origin, variant) established by crossing the edge."""

    def __init__(self, g, start=None, init_tags=None):
        self.g = g
        self.nodes = []          # index -> (gnode, frozen tags)
        self.index = {}
        self.succ = defaultdict(list)   # pidx -> [(pidx, learn tuple)]
        self.pred = defaultdict(list)
        start = start or g.entry
        s0 = (start, frozenset((init_tags or {}).items()))
        self.entry = self._intern(s0)
        self._explore()

    def _intern(self, s):
        i = self.index.get(s)
        if i is None:
            i = len(self.nodes)
            self.nodes.append(s)
            self.index[s] = i
            if i > MAX_PNODES:
                raise Unresolved("product graph exceeds %d nodes" % MAX_PNODES)
        return i

    # ---- transfer --------------------------------------------------------------------
    @staticmethod
    def _kill(tags, slot):
        if slot is None:
            return
        dead = [s for s in tags if s[0] == slot[0] and s[1] == slot[1] and
                (s[2][:len(slot[2])] == slot[2] or slot[2][:len(s[2])] == s[2])]
        for s in dead:
            del tags[s]

    @staticmethod
    def _subtags(tags, slot):
        """tags of strict sub-slots of `slot`, as (relative path, tag)"""
        if slot is None:
            return []
        n = len(slot[2])
        return [(s[2][n:], v) for s, v in tags.items()
                if s[0] == slot[0] and s[1] == slot[1] and len(s[2]) > n and s[2][:n] == slot[2]]

    def _tag_of_operand(self, inst, o, tags):
        if o["k"] == "const":
            if o.get("ty") == "bool" and "int" in o:
                return ("true" if o["int"] != "0" else "false", None)
            return None
        if o["k"] in ("copy", "move"):
            s = self.g.slot_of(inst, o["p"])
            if s is not None:
                return tags.get(s)
        return None

    def _stmt(self, inst, n, si, s, tags):
        if s["k"] != "assign":
            self._kill(tags, self.g.slot_of(inst, s["p"]))
            return
        slot = self.g.slot_of(inst, s["p"])
        rv = s["rv"]
        tag = None
        k = rv["k"]
        if k == "use":
            tag = self._tag_of_operand(inst, rv["a"], tags)
            if tag is not None and rv["a"]["k"] == "const" and not s["p"]["proj"] and s["p"]["l"] != 0 \
                    and "name" not in inst.body["locals"][s["p"]["l"]]:
                tag = None      # compiler drop flag, not program state
        elif k == "agg" and rv["ak"] == "adt" and (rv["adt"] in (
                "std::result::Result", "std::option::Option", "std::ops::ControlFlow")
                or self.g.prog.facts.adts.get(rv["adt"], {}).get("is_enum")):
            tag = (rv["variant"], None)
        elif k == "unop" and rv["op"] == "Not":
            t0 = self._tag_of_operand(inst, rv["a"], tags)
            if t0 and t0[0] in ("true", "false"):
                tag = ("false" if t0[0] == "true" else "true", t0[1])
            elif t0 and t0[0] == "?":
                tag = ("?", ("not", t0[1]))
            else:
                tag = ("?", ("stmt", n, si))
        elif k == "binop" and rv["op"] in ("Eq", "Ne", "Lt", "Le", "Gt", "Ge"):
            tag = ("?", ("stmt", n, si))
        elif k == "discr":
            tag = None
        sub = []
        if slot is not None:
            if k == "use" and rv["a"]["k"] in ("copy", "move"):
                src = self.g.slot_of(inst, rv["a"]["p"])
                if src is not None and src != slot:
                    sub = self._subtags(tags, src)
            elif k == "agg" and rv["ak"] in ("adt", "tuple"):
                names = rv.get("fnames") or [str(i) for i in range(len(rv["fields"]))]
                for i, f in enumerate(rv["fields"]):
                    ft = self._tag_of_operand(inst, f, tags)
                    nm = names[i] if i < len(names) else str(i)
                    if ft is not None:
                        sub.append(((nm,), ft))
                    if f["k"] in ("copy", "move"):
                        fs = self.g.slot_of(inst, f["p"])
                        if fs is not None:
                            for rel, v in self._subtags(tags, fs):
                                sub.append(((nm,) + rel, v))
            self._kill(tags, slot)
            if tag is not None:
                tags[slot] = tag
            for rel, v in sub:
                if len(slot[2]) + len(rel) <= 3:
                    tags[(slot[0], slot[1], slot[2] + rel)] = v

    def _kill_mut_args(self, inst, t, tags):
        # a callee given `&mut place` may change it
        for a in t["args"]:
            if a["k"] in ("copy", "move") and not a["p"]["proj"]:
                l = a["p"]["l"]
                ty = inst.body["locals"][l]["ty"]
                if ty.startswith("&mut "):
                    r = self.g._pointee(inst, l)
                    if r is not None:
                        sl = self.g.slot_of(r[0], r[1])
                        self._kill(tags, sl)
                    elif self.g._is_symbolic_arg(inst, l):
                        self._kill(tags, (inst.id, l, ("*",)))

    def _call_event(self, inst, n, t, tags):
        c = t.get("callee")
        slot = self.g.slot_of(inst, t["dest"])
        self._kill_mut_args(inst, t, tags)
        tag = None
        dty = t.get("dest_ty", "")
        if c:
            p = c["path"]
            a0 = self._tag_of_operand(inst, t["args"][0], tags) if t["args"] else None
            # `is_ok(&x)`: the argument is a reference temp; look through it
            if a0 is None and t["args"] and t["args"][0]["k"] in ("copy", "move") and not t["args"][0]["p"]["proj"]:
                r = self.g._pointee(inst, t["args"][0]["p"]["l"])
                if r is not None:
                    sl = self.g.slot_of(r[0], r[1])
                    if sl is not None:
                        a0 = tags.get(sl)
            if re.search(r"ops::Try::branch$", p):
                if a0:
                    m = {"Ok": "Continue", "Some": "Continue", "Err": "Break", "None": "Break", "?": "?"}
                    if a0[0] in m:
                        tag = (m[a0[0]], a0[1])
            elif re.search(r"ops::FromResidual", p):
                tag = ("Err" if "Result<" in dty else "None", a0[1] if a0 else None)
            elif _PRESERVE.search(p):
                tag = a0
                if a0 is None and re.search(r"::(as_ref|as_mut|as_deref|as_deref_mut)$", p) and t["args"] \
                        and t["args"][0]["k"] in ("copy", "move"):
                    # a view of an Option/Result whose variant is not known yet: the view and the viewed place get one shared origin,
                    # so that a later test of the view is a fact about the place (and is remembered for the place)
                    a = t["args"][0]
                    src = None
                    if not a["p"]["proj"]:
                        r = self.g._pointee(inst, a["p"]["l"])
                        if r is not None:
                            src = self.g.slot_of(r[0], r[1])
                    if src is None:
                        src = self.g.slot_of(inst, a["p"])
                    if src is not None and src not in tags and _is_tagged_ty(dty):
                        # (the viewed place itself gets its tag only when the view is tested: see _resolve_same_origin)
                        tag = ("?", ("place", src, n))
            elif _OK_OR.search(p):
                if a0:
                    tag = ({"Some": "Ok", "None": "Err", "?": "?"}.get(a0[0]), a0[1])
                    if tag[0] is None:
                        tag = None
            elif _TO_OPT.search(p):
                if a0:
                    tag = ({"Ok": "Some", "Err": "None", "?": "?"}.get(a0[0]), a0[1])
                    if tag[0] is None:
                        tag = None
            else:
                m = re.search(r"::(is_ok|is_err|is_some|is_none)$", p)
                if m and a0:
                    if a0[0] == "?":
                        tag = ("?", (m.group(1), a0[1]))
                    else:
                        v = _IS[m.group(1)].get(a0[0])
                        tag = (v, a0[1]) if v else None
        if tag is None and _is_tagged_ty(dty):
            tag = ("?", ("call", n))
        sub = []
        if c and t["args"] and t["args"][0]["k"] in ("copy", "move") and \
                (re.search(r"ops::Try::branch$", c["path"]) or
                 re.search(r"(result::Result::<T, E>::(map_err|inspect_err)|ErrorContextExt::context)$", c["path"])):
            src = self.g.slot_of(inst, t["args"][0]["p"])
            if src is not None and (tag is None or tag[0] in ("Ok", "Continue", "?")):
                sub = self._subtags(tags, src)
        if slot is not None:
            self._kill(tags, slot)
            if tag is not None:
                tags[slot] = tag
            for rel, v in sub:
                if len(slot[2]) + len(rel) <= 3:
                    tags[(slot[0], slot[1], slot[2] + rel)] = v

    # ---- exploration ------------------------------------------------------------------
    def _explore(self):
        g = self.g
        work = deque([self.entry])
        seen = {self.entry}
        while work:
            pi = work.popleft()
            n, ft = self.nodes[pi]
            inst = g.inst(n)
            tags = dict(ft)
            blk = inst.body["blocks"][n[1]]
            for si, s in enumerate(blk["stmts"]):
                self._stmt(inst, n, si, s, tags)
            t = blk["term"]
            outs = []    # (gnode, tags, learn)
            k = t["k"]
            if k == "call":
                sub = g.callee_inst.get(n)
                if sub is not None:
                    # enter callee: kill nothing; callee locals are fresh slots. A tagged value passed BY VALUE (`helper(res, flag)`) keeps
                    # what is known about it: the parameter's slot starts with the argument's tag (and its origin)
                    nt = tags
                    if sub.kind == "call":
                        for ai, a_ in enumerate(t.get("args", [])):
                            if a_.get("k") not in ("copy", "move"):
                                continue
                            # (only plain flags: rules that read evidence off Option/Result tests inside helpers need those tests to
                            #  stay visible as tests)
                            pl_ = sub.body["locals"][ai + 1]["ty"] if ai + 1 < len(sub.body["locals"]) else ""
                            if pl_ != "bool":
                                continue
                            src = g.slot_of(inst, a_["p"])
                            if src is None:
                                continue
                            tg0 = tags.get(src)
                            subs0 = self._subtags(tags, src)
                            if tg0 is None and not subs0:
                                continue
                            if nt is tags:
                                nt = dict(tags)
                            if tg0 is not None:
                                nt[(sub.id, ai + 1, ())] = tg0
                            for rel, v in subs0:
                                if len(rel) <= 3:
                                    nt[(sub.id, ai + 1, rel)] = v
                    for m, lab in g.succ[n]:
                        outs.append((m, nt, ()))
                else:
                    self._call_event(inst, n, t, tags)
                    short = bool(t.get("callee")) and bool(_SHORT_CIRCUIT.search(t["callee"]["path"])) and bool(g.closure_insts.get(n))
                    comb = _COMBINATOR_RX.search(t["callee"]["path"]) if (t.get("callee") and len(g.closure_insts.get(n, [])) == 1) else None
                    if comb:
                        outs += self._combinator_edges(inst, n, t, tags, comb.group(2))
                        for m, tg, learn in outs:
                            pass
                    for m, lab in ([] if comb else g.succ[n]):
                        if short and not (lab and lab[0] == "cl_enter"):
                            # try_fold / try_for_each over zero elements: `try { init }`
                            nt = dict(tags)
                            dslot = g.slot_of(inst, t["dest"])
                            if dslot is not None:
                                self._kill(nt, dslot)
                                nt[dslot] = ("Ok" if "Result<" in t.get("dest_ty", "") else ("Some" if "Option<" in t.get("dest_ty", "") else "Continue"),
                                             ("call", n))
                            outs.append((m, nt, ()))
                        else:
                            outs.append((m, tags, ()))
            elif k == "return":
                for m, lab in g.succ[n]:
                    if lab and lab[0] == "ret":
                        cn = lab[1]
                        pinst = g.inst(cn)
                        ct = g.term(cn)
                        nt = {s: v for s, v in tags.items() if s[0] != inst.id}
                        r = tags.get((inst.id, 0, ()))
                        rsub = self._subtags(tags, (inst.id, 0, ()))
                        dslot = g.slot_of(pinst, ct["dest"])
                        if dslot is not None:
                            self._kill(nt, dslot)
                            if r is not None:
                                nt[dslot] = r
                            elif _is_tagged_ty(ct.get("dest_ty", "")):
                                nt[dslot] = ("?", ("call", cn))
                            for rel, v in rsub:
                                if len(dslot[2]) + len(rel) <= 3:
                                    nt[(dslot[0], dslot[1], dslot[2] + rel)] = v
                        outs.append((m, nt, ()))
                    else:
                        # closure maybe-call return: forget the closure's locals
                        nt = {s: v for s, v in tags.items() if s[0] != inst.id}
                        cn = lab[1] if lab and lab[0] == "cl_ret" else (inst.parent and (inst.parent.id, inst.call_bb))
                        ct = g.term(cn) if cn and cn in g.closure_insts else None
                        cm = _COMBINATOR_RX.search(ct["callee"]["path"]) if (ct is not None and ct.get("callee") and len(g.closure_insts.get(cn, [])) == 1) else None
                        if cm:
                            if lab and lab[0] == "cl_again":
                                continue                      # called at most once
                            trig, skip_res, after = _COMBINATORS[cm.group(2)]
                            pinst = g.inst(cn)
                            dslot = g.slot_of(pinst, ct["dest"])
                            r = tags.get((inst.id, 0, ()))
                            if dslot is not None:
                                self._kill(nt, dslot)
                                dty = ct.get("dest_ty", "")
                                if after == "closure" and r is not None:
                                    nt[dslot] = r
                                    for rel, v in self._subtags(tags, (inst.id, 0, ())):
                                        if len(dslot[2]) + len(rel) <= 3:
                                            nt[(dslot[0], dslot[1], dslot[2] + rel)] = v
                                elif after == "filter":
                                    # Some(x) iff the predicate said true
                                    if r is not None and r[0] in ("true", "false"):
                                        nt[dslot] = ("Some" if r[0] == "true" else "None", r[1])
                                    elif r is not None and r[0] == "?":
                                        nt[dslot] = ("?", ("some_iff", r[1]))
                                    else:
                                        nt[dslot] = ("?", ("call", cn))
                                elif after == "pos":
                                    nt[dslot] = ("Ok" if "Result<" in dty else "Some", ("call", cn))
                                elif after == "neg":
                                    nt[dslot] = ("Err" if "Result<" in dty else "None", ("call", cn))
                                elif after in ("Ok", "Err", "Some", "None"):
                                    nt[dslot] = (after, ("call", cn))
                                elif _is_tagged_ty(dty):
                                    nt[dslot] = ("?", ("call", cn))
                            outs.append((m, nt, ()))
                            continue
                        if ct is not None and ct.get("callee") and _SHORT_CIRCUIT.search(ct["callee"]["path"]):
                            # try_fold / try_for_each: a closure result that is Err/None/Break ends the iteration and IS the result;
                            # an Ok result either feeds the next call or is the result
                            r = tags.get((inst.id, 0, ()))
                            failed = r is not None and r[0] in ("Err", "None", "Break")
                            if lab and lab[0] == "cl_again":
                                if failed:
                                    continue
                            elif lab and lab[0] == "cl_ret":
                                pinst = g.inst(cn)
                                dslot = g.slot_of(pinst, ct["dest"])
                                if dslot is not None and r is not None:
                                    self._kill(nt, dslot)
                                    nt[dslot] = r
                                    for rel, v in self._subtags(tags, (inst.id, 0, ())):
                                        if len(dslot[2]) + len(rel) <= 3:
                                            nt[(dslot[0], dslot[1], dslot[2] + rel)] = v
                        outs.append((m, nt, ()))
            elif k == "switch":
                outs = self._switch(inst, n, t, tags)
            elif k == "drop":
                self._kill(tags, g.slot_of(inst, t["p"]))
                for m, lab in g.succ[n]:
                    outs.append((m, tags, ()))
            else:
                for m, lab in g.succ[n]:
                    outs.append((m, tags, ()))
            for m, tg, learn in outs:
                tg = self._prune(m, tg)
                s = (m, frozenset(tg.items()))
                qi = self._intern(s)
                learn = self._concrete_learn(learn)
                self.succ[pi].append((qi, learn))
                self.pred[qi].append((pi, learn))
                if qi not in seen:
                    seen.add(qi)
                    work.append(qi)

    def _concrete_learn(self, learn):
        """a fact learned behind `?` arrives as Continue/Break of the ControlFlow value; rules reason about the Option/Result the call
        returned, so the fact is restated in that vocabulary (Continue -> Some/Ok, Break -> None/Err) when the origin is a call whose
        return type says which one it is"""
        if not learn:
            return learn
        out = []
        for origin, var in learn:
            if var in ("Continue", "Break") and isinstance(origin, tuple) and origin and origin[0] == "call":
                try:
                    dty = self.g.term(origin[1]).get("dest_ty", "") or ""
                except Exception:
                    dty = ""
                if re.match(r"^(std|core)::option::Option<", dty):
                    var = "Some" if var == "Continue" else "None"
                elif re.match(r"^(std|core)::result::Result<", dty):
                    var = "Ok" if var == "Continue" else "Err"
            out.append((origin, var))
        return tuple(out)

    def _combinator_edges(self, inst, n, t, tags, name):
        """out-edges of `recv.<combinator>(closure)`: the closure runs (once) only for the triggering variants of the receiver, so the
        call is a branch on the receiver's variant - with the usual learn facts - and its result follows from which way it went"""
        g = self.g
        trig, skip_res, after = _COMBINATORS[name]
        recv = self._tag_of_operand(inst, t["args"][0], tags) if t["args"] else None
        rslot = None
        a = t["args"][0] if t["args"] else None
        if a is not None and a["k"] in ("copy", "move"):
            rslot = g.slot_of(inst, a["p"])
            if recv is None and not a["p"]["proj"]:
                r = g._pointee(inst, a["p"]["l"])
                if r is not None:
                    rslot = g.slot_of(r[0], r[1])
                    recv = tags.get(rslot) if rslot is not None else None
        dty = t.get("dest_ty", "")
        dslot = g.slot_of(inst, t["dest"])
        is_res = "Result<" in (inst.body["locals"][a["p"]["l"]]["ty"] if a is not None and a["k"] in ("copy", "move") else "")
        other = {"Ok": "Err", "Err": "Ok", "Some": "None", "None": "Some"}
        tv = [v for v in trig if (v in ("Ok", "Err")) == is_res] or list(trig)
        tv = tv[0]
        origin = recv[1] if recv else (("place", rslot, n) if rslot is not None else ("call", n))
        known = recv[0] if recv and recv[0] != "?" else None
        outs = []
        enter = [m for m, lab in g.succ[n] if lab and lab[0] == "cl_enter"]
        skip = [m for m, lab in g.succ[n] if not (lab and lab[0] == "cl_enter")]
        if known is None or known in trig:
            for m in enter:
                nt = dict(tags)
                learn = ()
                if known is None:
                    learn = ((origin, tv),)
                    if rslot is not None:
                        nt[rslot] = (tv, origin)
                    self._resolve_same_origin(nt, origin, tv)
                outs.append((m, nt, learn))
        if known is None or known not in trig:
            for m in skip:
                nt = dict(tags)
                learn = ()
                ov = known or other.get(tv)
                if known is None and ov:
                    learn = ((origin, ov),)
                    if rslot is not None:
                        nt[rslot] = (ov, origin)
                    self._resolve_same_origin(nt, origin, ov)
                if dslot is not None:
                    self._kill(nt, dslot)
                    if skip_res == "recv" and ov and _is_tagged_ty(dty):
                        nt[dslot] = (ov, origin)
                    elif skip_res in ("Ok", "Err", "Some", "None", "true", "false"):
                        nt[dslot] = (skip_res, ("call", n))
                    elif _is_tagged_ty(dty):
                        nt[dslot] = ("?", ("call", n))
                outs.append((m, nt, learn))
        return outs

    def _resolve_same_origin(self, tags, origin, variant):
        """slots that hold the same not-yet-known value (same origin: a place and its as_ref() view) learn the variant together"""
        for s2, v2 in list(tags.items()):
            if v2 is not None and v2[0] == "?" and v2[1] == origin:
                tags[s2] = (variant, origin)
        if isinstance(origin, tuple) and len(origin) == 3 and origin[0] == "place" and origin[1] not in tags \
                and self.g.term(origin[2])["k"] == "call":
            # origin made at a view (`x.as_ref()`): what was learned about the view holds for the viewed place (the borrow is alive)
            tags[origin[1]] = (variant, origin)

    def _prune(self, m, tags):
        """drop tags of locals of m's instance that are dead on entry to block m (and not address-taken)."""
        inst = self.g.inst(m)
        live_in, addr = self.g.prog.liveness(inst.key)
        li = live_in[m[1]]
        iid = inst.id
        out = {}
        for sl, v in tags.items():
            if sl[0] == iid and sl[1] != 0 and sl[1] not in li and sl[1] not in addr:
                continue
            out[sl] = v
        return out

    def _switch(self, inst, n, t, tags):
        g = self.g
        outs = []
        d = t["discr"]
        if d["k"] == "const":
            # constant switch
            v = d.get("int")
            for tg in t["targets"]:
                if tg["v"] == v:
                    return [((inst.id, tg["bb"]), tags, ())]
            return [((inst.id, t["otherwise"]), tags, ())]
        if "enum" in t:
            slot = g.slot_of(inst, t["dplace"])
            cur = tags.get(slot) if slot is not None else None
            variants = t["variants"]
            covered = [tg.get("variant") for tg in t["targets"]]
            rest = [v for v in variants if v not in covered]
            if cur and cur[0] != "?":
                for tg in t["targets"]:
                    if tg.get("variant") == cur[0]:
                        return [((inst.id, tg["bb"]), tags, ())]
                return [((inst.id, t["otherwise"]), tags, ())]
            origin = cur[1] if cur else None
            if origin is None and slot is not None:
                origin = ("place", slot, n)
            for tg in t["targets"]:
                nt = dict(tags)
                learn = ()
                if slot is not None:
                    nt[slot] = (tg.get("variant"), origin)
                if origin is not None:
                    learn = ((origin, tg.get("variant")),)
                    self._resolve_same_origin(nt, origin, tg.get("variant"))
                outs.append(((inst.id, tg["bb"]), nt, learn))
            if rest:
                nt = dict(tags)
                learn = ()
                if len(rest) == 1:
                    if slot is not None:
                        nt[slot] = (rest[0], origin)
                    if origin is not None:
                        learn = ((origin, rest[0]),)
                        self._resolve_same_origin(nt, origin, rest[0])
                outs.append(((inst.id, t["otherwise"]), nt, learn))
            return outs
        # integer / bool switch on a local
        slot = g.slot_of(inst, d["p"])
        cur = tags.get(slot) if slot is not None else None
        is_bool = t.get("dty") == "bool"
        if is_bool and cur and cur[0] in ("true", "false"):
            want = "0" if cur[0] == "false" else None
            for tg in t["targets"]:
                if tg["v"] == want:
                    return [((inst.id, tg["bb"]), tags, ())]
            if want is None:
                return [((inst.id, t["otherwise"]), tags, ())]
            return [((inst.id, t["otherwise"]), tags, ())] if not any(tg["v"] == "0" for tg in t["targets"]) else []
        origin = cur[1] if cur else None
        if origin is None and slot is not None:
            origin = ("place", slot, n)
        back = self._bool_source(inst, d["p"]) if is_bool else None
        for tg in t["targets"]:
            nt = dict(tags)
            learn = ()
            val = ("false" if tg["v"] == "0" else "true") if is_bool else tg["v"]
            if slot is not None and is_bool:
                nt[slot] = (val, origin)
            if back is not None and is_bool:
                bslot, neg = back
                bv = val if not neg else ("false" if val == "true" else "true")
                old = nt.get(bslot)
                nt[bslot] = (bv, old[1] if old else None)
                if old and old[0] == "?" and old[1] is not None:
                    self._resolve_same_origin(nt, old[1], bv)
            if origin is not None:
                learn = ((origin, val),)
                if is_bool:
                    for o_b, v_b in norm_learn(learn):
                        if v_b in ("Some", "None", "Ok", "Err") and o_b != origin:
                            self._resolve_same_origin(nt, o_b, v_b)
            outs.append(((inst.id, tg["bb"]), nt, learn))
        nt = dict(tags)
        learn = ()
        if is_bool:
            val = "true"
            if slot is not None:
                nt[slot] = (val, origin)
            if back is not None:
                bslot, neg = back
                bv = val if not neg else "false"
                old = nt.get(bslot)
                nt[bslot] = (bv, old[1] if old else None)
            if origin is not None:
                learn = ((origin, val),)
                for o_b, v_b in norm_learn(learn):
                    if v_b in ("Some", "None", "Ok", "Err") and o_b != origin:
                        self._resolve_same_origin(nt, o_b, v_b)
        elif origin is not None:
            learn = ((origin, "otherwise"),)
        outs.append(((inst.id, t["otherwise"]), nt, learn))
        return outs

    def _bool_source(self, inst, p):
        """switch(move _5) where _5 = copy <place> or Not(copy <place>): learn the source too."""
        if p["proj"]:
            return None
        defs = self.g.prog.defs(inst.key).get(p["l"], [])
        if len(defs) != 1 or defs[0][0] != "s":
            return None
        s = inst.body["blocks"][defs[0][1]]["stmts"][defs[0][2]]
        if s["k"] != "assign":
            return None
        rv = s["rv"]
        neg = False
        if rv["k"] == "unop" and rv["op"] == "Not":
            neg = True
            o = rv["a"]
        elif rv["k"] == "use":
            o = rv["a"]
        else:
            return None
        if o["k"] not in ("copy", "move"):
            return None
        sl = self.g.slot_of(inst, o["p"])
        if sl is None or sl == self.g.slot_of(inst, p):
            return None
        return (sl, neg)

    # ---- queries ----------------------------------------------------------------------
    @property
    def live(self):
        """graph nodes that occur in some reachable product state (feasible under the tag abstraction)"""
        l = getattr(self, "_live", None)
        if l is None:
            l = {n for n, _ in self.nodes}
            self._live = l
        return l

    def calls(self, rx=None, pred=None):
        return [n for n in self.g.call_nodes(rx, pred) if n in self.live]

    def gnode(self, pi):
        return self.nodes[pi][0]

    def tags(self, pi):
        return dict(self.nodes[pi][1])

    def pnodes_of(self, gnodes):
        gs = set(gnodes)
        return [i for i, (n, _) in enumerate(self.nodes) if n in gs]

    def exits(self):
        ex = set(self.g.exits)
        return [i for i, (n, _) in enumerate(self.nodes) if n in ex]

    def tags_after_block(self, pi):
        """tag state after the statements of the block (before the terminator)."""
        n, ft = self.nodes[pi]
        inst = self.g.inst(n)
        tags = dict(ft)
        for si, s in enumerate(inst.body["blocks"][n[1]]["stmts"]):
            self._stmt(inst, n, si, s, tags)
        return tags

    def operand_tag(self, pi, o):
        n, _ = self.nodes[pi]
        return self._tag_of_operand(self.g.inst(n), o, self.tags_after_block(pi))


# --------------------------------------------------------------------------------------
# Monitors: a second product  P x M  with a rule-specific finite monitor
# --------------------------------------------------------------------------------------

def run_monitor(P, init, step, starts=None, max_states=2000000):
    """step(mstate, pi, qi, learn) -> new mstate (or None to stop exploring that edge).
    The monitor sees node `pi` (events of pi's block have happened when leaving it).
    Returns dict (pi, mstate) -> predecessor (for path reconstruction)."""
    starts = starts if starts is not None else [P.entry]
    assert init is not None, "monitor states must not be None (None means: prune this edge)"
    seen = {}
    work = deque()
    for s in starts:
        k = (s, init)
        seen[k] = None
        work.append(k)
    while work:
        k = work.popleft()
        pi, ms = k
        for qi, learn in P.succ[pi]:
            ns = step(ms, pi, qi, learn)
            if ns is None:
                continue
            nk = (qi, ns)
            if nk not in seen:
                seen[nk] = k
                work.append(nk)
                if len(seen) > max_states:
                    raise Unresolved("monitor product too large (%s, %d states)" % (getattr(step, "__qualname__", "?"), len(seen)))
    return seen


def finals(P, seen, step):
    """(pi, state after executing pi's own block) for product nodes without successors (exits)"""
    out = []
    for (pi, ms) in seen:
        if not P.succ.get(pi):
            ns = step(ms, pi, None, ())
            if ns is not None:
                out.append((pi, ms, ns))
    return out


def path_to(seen, k):
    out = []
    while k is not None:
        out.append(k)
        k = seen[k]
    return list(reversed(out))


def reach(P, starts, stop=None, edge_ok=None):
    """forward reachability over P from a set of pnodes; stop(pi) prunes nodes (not entered),
    edge_ok(pi, qi, learn) prunes edges."""
    seen = set(starts)
    work = deque(starts)
    while work:
        pi = work.popleft()
        for qi, learn in P.succ[pi]:
            if qi in seen:
                continue
            if edge_ok is not None and not edge_ok(pi, qi, learn):
                continue
            if stop is not None and stop(qi):
                continue
            seen.add(qi)
            work.append(qi)
    return seen


def describe_path(P, pis, limit=24):
    g = P.g
    out = []
    last = None
    for pi in pis:
        n = P.gnode(pi)
        w = g.where(n)
        if w != last:
            out.append(w)
            last = w
    if len(out) > limit:
        out = out[:limit // 2] + ["..."] + out[-limit // 2:]
    return out


# --------------------------------------------------------------------------------------
# expression helpers
# --------------------------------------------------------------------------------------

def strip_ids(e):
    """remove call-site identities so two syntactically equal provenance expressions compare equal."""
    if not isinstance(e, tuple):
        return e
    if e and e[0] == "call":
        return ("call", e[1], tuple(strip_ids(x) for x in e[2]))
    if e and e[0] == "ret":
        return ("ret", e[1], tuple(strip_ids(x) for x in e[2]))
    return tuple(strip_ids(x) for x in e)


def expr_s(e):
    if not isinstance(e, tuple):
        return str(e)
    if not e:
        return "()"
    h = e[0]
    if h == "arg":
        return "arg%d" % e[1]
    if h == "var":
        return "v%d_%d" % (e[1], e[2])
    if h == "field":
        return "%s.%s" % (expr_s(e[1]), e[2])
    if h == "const":
        return str(e[1])
    if h == "idx":
        return "%s[%s]" % (expr_s(e[1]), expr_s(e[2]))
    if h == "call":
        return "%s(%s)" % (short(e[1]), ", ".join(expr_s(x) for x in e[2]))
    if h == "ret":
        return "%s(%s)" % (short(e[1]), ", ".join(expr_s(x) for x in e[2]))
    if h == "agg":
        return "%s::%s{%s}" % (short(e[1]), e[2], ", ".join(expr_s(x) for x in e[3]))
    if h == "binop":
        return "%s(%s, %s)" % (e[1], expr_s(e[2]), expr_s(e[3]))
    if h in ("okval", "errval", "residual", "err_of", "branch", "cast", "discr"):
        return "%s(%s)" % (h, expr_s(e[1]))
    if h == "as":
        return "(%s as %s)" % (expr_s(e[1]), e[2])
    return "%s(%s)" % (h, ", ".join(expr_s(x) for x in e[1:]))


def short(path):
    path = re.sub(r"<[^<>]*>", "", path)
    path = re.sub(r"<[^<>]*>", "", path)
    parts = [p for p in path.split("::") if p]
    return "::".join(parts[-2:])


def contains(e, pred):
    if pred(e):
        return True
    if isinstance(e, tuple):
        return any(contains(x, pred) for x in e if isinstance(x, tuple))
    return False


OKV = {"Ok", "Continue", "Some", "true"}
ERRV = {"Err", "Break", "None", "false"}


def norm_learn(learn):
    """[(base origin, variant)] with is_ok/is_err/is_some/is_none/not wrappers folded into the variant."""
    out = []
    for origin, var in learn:
        o, v = origin, var
        while isinstance(o, tuple) and o and o[0] in ("is_ok", "is_err", "is_some", "is_none", "not", "some_iff"):
            if o[0] == "some_iff":
                # `opt.filter(pred)` turned out Some: the predicate held (None says nothing: the receiver may have been None)
                if v != "Some":
                    break
                o, v = o[1], "true"
                continue
            if v not in ("true", "false"):
                break
            if o[0] == "not":
                v = "false" if v == "true" else "true"
            else:
                inv = {"Ok": "Err", "Err": "Ok", "Some": "None", "None": "Some"}
                pos = {"is_ok": "Ok", "is_err": "Err", "is_some": "Some", "is_none": "None"}[o[0]]
                v = pos if v == "true" else inv[pos]
            o = o[1]
        out.append((o, v))
    return out


# --------------------------------------------------------------------------------------
# dominators / natural loops on an EGraph
# --------------------------------------------------------------------------------------

def dominators(nodes, succ, entry):
    """iterative dominator sets (small graphs). succ: node -> iterable of nodes."""
    order = []
    seen = set()
    stack = [(entry, iter(succ(entry)))]
    seen.add(entry)
    while stack:
        n, it = stack[-1]
        adv = False
        for m in it:
            if m not in seen:
                seen.add(m)
                stack.append((m, iter(succ(m))))
                adv = True
                break
        if not adv:
            order.append(n)
            stack.pop()
    rpo = list(reversed(order))
    idx = {n: i for i, n in enumerate(rpo)}
    preds = defaultdict(list)
    for n in rpo:
        for m in succ(n):
            if m in idx:
                preds[m].append(n)
    idom = {entry: entry}
    changed = True

    def inter(a, b):
        while a != b:
            while idx[a] > idx[b]:
                a = idom[a]
            while idx[b] > idx[a]:
                b = idom[b]
        return a
    while changed:
        changed = False
        for n in rpo[1:]:
            ps = [p for p in preds[n] if p in idom]
            if not ps:
                continue
            new = ps[0]
            for p in ps[1:]:
                new = inter(p, new)
            if idom.get(n) != new:
                idom[n] = new
                changed = True
    return idom, idx


def dominates(idom, a, b):
    """a dominates b"""
    if b not in idom:
        return False
    while True:
        if a == b:
            return True
        p = idom[b]
        if p == b:
            return False
        b = p


def natural_loops(g):
    """list of (header, body set) for the EGraph"""
    key = "_loops"
    if hasattr(g, key):
        return getattr(g, key)
    succ = lambda n: [m for m, _ in g.succ[n]]
    idom, idx = dominators(g.nodes, succ, g.entry)
    loops = {}
    for u in g.nodes:
        if u not in idom:
            continue
        for h, _ in g.succ[u]:
            if h in idom and dominates(idom, h, u):
                body = loops.setdefault(h, {h})
                work = [u]
                while work:
                    x = work.pop()
                    if x in body:
                        continue
                    body.add(x)
                    for p, _ in g.pred[x]:
                        if p in idom:
                            work.append(p)
    out = sorted(loops.items(), key=lambda kv: len(kv[1]))
    setattr(g, key, out)
    setattr(g, "_idom", idom)
    return out


def smallest_loop(g, n):
    for h, body in natural_loops(g):
        if n in body:
            return h, body
    return None


def agg_field(e):
    """for ('field', ('agg', adt, variant, fields), name/idx): the value the field had at construction, else None.
    Only meaningful when the caller has established that the field is never assigned afterwards."""
    if isinstance(e, tuple) and len(e) == 3 and e[0] == "field" and isinstance(e[1], tuple) and e[1] and e[1][0] == "agg":
        return ("aggfield", e[1], e[2])
    return None
