"""C01 -- sequential log semantics.
R01.1 routing (journal -> apply on the same record); R01.2 apply arguments; R01.3 transfer decision tables per WALRecord variant vs
spec/state_tables.json; R01.4 argument mapping of truncate / purge; R01.5 index-map + cache table; R01.7 read mapping."""
import json
import os
import re

from engine import (cmatch, cpath, expr_s, norm_learn, run_monitor, path_to, describe_path, strip_ids, OKV, ERRV, contains, finals)
from helpers import *
from common import VERIF
import c11

APPLY_KEY = r"RaftLogStateMachine<T> as api::state_machine::StateMachine<.*>>::apply$"
CMP_RX = r"cmp::(PartialOrd|PartialEq|Ord)(<.*>)?>?::(lt|le|gt|ge|eq|ne)$|cmp::impls::<impl .*>::(lt|le|gt|ge|eq|ne)$"
SWAP = {"lt": "gt", "gt": "lt", "le": "ge", "ge": "le", "eq": "eq", "ne": "ne"}
VOTE_FIELDS = {"vote"}


def render(e, self_root=("arg", 1), rec_root=("arg", 2), state_path=("log_state",)):
    """textual normal form of an operand: state.F for stored state, xN for the record payload"""
    if not isinstance(e, tuple) or not e:
        return str(e)
    h = e[0]
    if h == "field":
        # stored state: <self>.<state_path>.F
        fp = []
        x = e
        while isinstance(x, tuple) and x and x[0] == "field":
            fp.append(x[2])
            x = x[1]
        fp = tuple(reversed(fp))
        if x == self_root and fp[:len(state_path)] == state_path and len(fp) == len(state_path) + 1:
            return "state.%s" % fp[-1]
        if isinstance(x, tuple) and x and x[0] == "as" and x[1] == rec_root and len(fp) >= 1:
            s = "x%s" % fp[0]
            for f in fp[1:]:
                s += "." + f
            return s
        return "%s.%s" % (render(e[1], self_root, rec_root, state_path), e[2])
    if h == "agg":
        if e[2] in ("Some", "None") and str(e[1]).endswith("Option"):
            if e[2] == "Some" and isinstance(e[3][0], tuple) and e[3][0] and e[3][0][0] == "okval":
                # Some(<payload of the stored Option f>), built where f was found to be Some, is f itself
                inner = render(e[3][0][1], self_root, rec_root, state_path)
                if inner.startswith("state."):
                    return inner
            return "Some(%s)" % render(e[3][0], self_root, rec_root, state_path) if e[2] == "Some" else "None"
        return "%s{%s}" % (e[2], ", ".join(render(x, self_root, rec_root, state_path) for x in e[3]))
    if h in ("call", "ret"):
        nm = e[1].split("::")[-1]
        return "%s(%s)" % (nm, ", ".join(render(x, self_root, rec_root, state_path) for x in e[2]))
    if h == "const":
        return str(e[1])
    if h in ("okval", "cast"):
        return render(e[1], self_root, rec_root, state_path)
    if h == "binop":
        return "%s(%s, %s)" % (e[1], render(e[2], self_root, rec_root, state_path), render(e[3], self_root, rec_root, state_path))
    if h == "arg":
        return "arg%d" % e[1]
    return expr_s(e)


def canon_pred(op, a, b, outcome):
    """orientation: stored state on the right; log-id comparisons reduced to lt/le/eq with explicit truth; vote comparisons keep their operator"""
    if "state." in a and "state." not in b:
        a, b, op = b, a, SWAP[op]
    if op in ("eq", "ne"):
        x, y = sorted([a, b], key=lambda s: ("state." in s, s))
        truth = outcome if op == "eq" else (not outcome)
        return ("eq(%s, %s)" % (x, y), truth)
    is_vote = any(("state.%s" % f) in (a + b) for f in VOTE_FIELDS)
    if not is_vote:
        if op == "gt":
            op, outcome = "le", not outcome
        elif op == "ge":
            op, outcome = "lt", not outcome
    return ("%s(%s, %s)" % (op, a, b), outcome)


def extract_rows(ctx, key, self_root, rec_root, state_path, variant_slot):
    g = ctx.graph(key)
    P = ctx.product(key)

    def r(e):
        return render(strip_ids(e), self_root, rec_root, state_path)

    def step(ms, pi, qi, learn):
        facts, assigns, errs = ms
        n = P.gnode(pi)
        inst = g.inst(n)
        for si, s in enumerate(g.stmts(n)):
            if s["k"] == "assign" and s["p"]["proj"] and s["p"]["proj"][0] == "deref":
                pe = strip_ids(g.prov_place(inst, s["p"]))
                rp = render(pe, self_root, rec_root, state_path)
                if rp.startswith("state."):
                    assigns = assigns | {(rp[6:], r(g.prov_rvalue(inst, s["rv"], None)))}
                elif _is_state_root(pe, self_root, state_path):
                    assigns = assigns | {("*", r(g.prov_rvalue(inst, s["rv"], None)))}
        t = g.term(n)
        if t["k"] == "call" and n not in g.callee_inst and not t.get("exp"):
            if cmatch(t, r"Clone>?::clone_from$"):
                a = event_args(g, n)
                rp = r(a[0])
                if rp.startswith("state."):
                    assigns = assigns | {(rp[6:], r(a[1]))}
        sub = g.callee_inst.get(n)
        if sub is not None:
            m = re.match(r"errors::(\w+)::<T>::new$|errors::(\w+)::new$", sub.key)
            if m:
                errs = errs | {m.group(1) or m.group(2)}
        for o, v in norm_learn(learn):
            cn = origin_call(o)
            if cn is not None and v in ("true", "false"):
                tt = g.term(cn)
                a = [r(x) for x in event_args(g, cn)]
                if cmatch(tt, CMP_RX) and len(a) == 2 and ("state." in a[0] or "state." in a[1]):
                    facts = facts | {canon_pred(cpath(tt).split("::")[-1], a[0], a[1], v == "true")}
                elif cmatch(tt, r"Option::<T>::(is_some|is_none)$") and "state." in a[0]:
                    nm = cpath(tt).split("::")[-1]
                    truth = (v == "true") if nm == "is_some" else (v != "true")
                    facts = facts | {("is_some(%s)" % a[0], truth)}
            if cn is None and v in ("Some", "None"):
                # a variant test of a stored Option (directly, or through an as_ref() view): the same fact as is_some()
                pe = origin_place_expr(g, o)
                if pe is not None:
                    rp = r(pe)
                    if rp.startswith("state."):
                        facts = facts | {("is_some(%s)" % rp, v == "Some")}
            e = origin_stmt_expr(g, o)
            if e is not None and e[0] == "binop" and e[1] in ("Eq", "Ne", "Lt", "Le", "Gt", "Ge") and v in ("true", "false"):
                a, b = r(e[2]), r(e[3])
                if "state." in a or "state." in b:
                    facts = facts | {canon_pred(e[1].lower(), a, b, v == "true")}
        return (facts, assigns, errs)
    seen = run_monitor(P, (frozenset(), frozenset(), frozenset()), step)
    rows = {}
    for (pi, ms0, ms) in finals(P, seen, step):
        if P.gnode(pi) not in g.exits:
            continue
        vt = P.tags(pi).get(variant_slot)
        variant = vt[0] if vt else None
        res = P.tags_after_block(pi).get((0, 0, ()))
        result = "Ok" if (res and res[0] == "Ok") else ("Err:" + "+".join(sorted(ms[2])) if res and res[0] == "Err" else "?")
        rows.setdefault(variant, set()).add((ms[0], ms[1], result))
    return g, P, rows


def _is_state_root(pe, self_root, state_path):
    x = pe
    fp = []
    while isinstance(x, tuple) and x and x[0] == "field":
        fp.append(x[2])
        x = x[1]
    return x == self_root and tuple(reversed(fp)) == state_path


def fmt_row(row):
    facts, assigns, result = row
    return "when {%s} => assign {%s} -> %s" % (", ".join("%s=%s" % (k, v) for k, v in sorted(facts)),
                                                ", ".join("%s:=%s" % (k, v) for k, v in sorted(assigns)), result)


def run_tables_only(ctx, rep):
    _tables(ctx, rep)


def run(ctx, rep):
    rep.rule("R01.3", "for every WALRecord variant, the complete decision table (ordered comparisons over stored state and record payload -> "
                      "field assignments with provenance, Ok/Err kind) extracted from the inlined StateMachine::apply equals spec/state_tables.json")
    rep.rule("R01.5", "index-map / cache table per variant: Append inserts (log_index(id) -> id, chunk_id arg, segment arg) and caches (id, payload) "
                      "on every accepted path; TruncateAfter drops the upper split; PurgeUpto keeps the upper split; others touch neither")
    rep.rule("R01.1", "every Ok return of every write operation has journalled one record and applied that same record Ok")
    rep.rule("R01.2", "apply's chunk_id / segment arguments are the open chunk's id and last segment, read after the journal push and before rotation")
    rep.rule("R01.4", "truncate maps index to TruncateAfter(purged | log[index-1].log_id | LogIndexNotFound); purge journals only when log_index(upto) >= next_log_index(purged)")
    rep.rule("R01.7", "read() ranges over the index map and yields the entry's own log id with the cached or disk payload (shared with R07.5)")
    key = _tables(ctx, rep)
    # R01.8: chunk splitting is invisible: the State record at the head of a new chunk is the stored state itself (= R02.4)
    rep.rule("R01.8", "= R02.4: the head snapshot of every new chunk is the stored state after the filling record (chunk limits are invisible)")
    import c02
    from c03 import _Filter
    c02.r02_4(ctx, _Filter(rep, keep=("R02.4",), rename="R01.8/"))
    r01_5(ctx, rep, key)
    r01_1_2(ctx, rep)
    r01_4(ctx, rep)
    r01_7(ctx, rep)
    r01_9(ctx, rep)
    r01_10(ctx, rep)


def _tables(ctx, rep):
    with open(os.path.join(VERIF, "spec", "state_tables.json")) as f:
        spec = json.load(f)
    key = ctx.body_key(APPLY_KEY)
    g, P, rows = extract_rows(ctx, key, ("arg", 1), ("arg", 2), ("log_state",), (0, 2, ("*",)))
    adt = ctx.facts.adts.get("raft_log::wal::wal_record::WALRecord")
    variants = [v["name"] for v in adt["variants"]] if adt else []
    rep.floor("R01.3", "WALRecord variants", len(variants), 6)
    for v in variants:
        got = rows.get(v, set())
        ref = spec.get(v)
        if ref is None:
            rep.unresolved("R01.3", "no-reference:%s" % v, "variant %s has no reference table" % v)
            continue
        want = set()
        for row in ref:
            want.add((frozenset((k, bool(val)) for k, val in row["when"].items()),
                      frozenset((k, val) for k, val in row["assign"].items()), row["result"]))
        if got == want:
            rep.ok("R01.3", "%s: %d row(s)" % (v, len(got)), "; ".join(fmt_row(r_) for r_ in sorted(got, key=str))[:300], where=g.where(g.entry))
        else:
            extra = got - want
            missing = want - got
            detail = ""
            if extra:
                detail += "implemented but not in the reference: " + " | ".join(fmt_row(r_) for r_ in sorted(extra, key=str))
            if missing:
                detail += " ;; in the reference but not implemented: " + " | ".join(fmt_row(r_) for r_ in sorted(missing, key=str))
            sig = sorted(fmt_row(r_) for r_ in extra)[:1] or ["missing:" + sorted(fmt_row(r_) for r_ in missing)[0]]
            rep.violation("R01.3", "%s|%s" % (v, sig[0][:110]), "transition table of %s" % v,
                          "the state transition for %s differs from the sequential specification: %s" % (v, detail[:700]), where=g.where(g.entry))
    return key


def r01_9(ctx, rep):
    """R01.9: a validator that runs ahead of the journal (any fn(&RaftLogState, &WALRecord) -> Result<(), RaftLogStateError>) refuses exactly what
    the reference refuses: its Err rows per variant are rows of spec/state_tables.json, and it assigns nothing."""
    rep.rule("R01.9", "a pre-journal validator (role discovered by type: fn(&RaftLogState, &WALRecord) -> Result<(), RaftLogStateError>, called by a "
                      "write operation) refuses only what the reference refuses: every Err row of its decision table, per record variant, is an "
                      "Err row of spec/state_tables.json with the same predicates and error kind (a stricter validator turns writes the "
                      "sequential specification accepts into errors); it assigns no state")
    with open(os.path.join(VERIF, "spec", "state_tables.json")) as f:
        spec = json.load(f)
    cands = [b["key"] for b in ctx.facts.doc["bodies"]
             if re.search(r"^for<'a, 'b> fn\(&'a [\w:]*RaftLogState<T>, &'b [\w:]*WALRecord<T>\) -> std::result::Result<\(\), [\w:]*RaftLogStateError<T>>$", b.get("sig", ""))]
    used = []
    for wk in ctx.write_entries():
        gw = ctx.graph(wk)
        for i in gw.insts:
            if i.key in cands and i.key not in used:
                used.append(i.key)
    if not used:
        rep.ok("R01.9", "no separate validator", "no function of the validator type is called by a write operation: refusals are decided by "
               "apply's tables alone (R01.3)", nontrivial=False)
        return
    for key in used:
        g, P, rows = extract_rows(ctx, key, ("arg", 1), ("arg", 2), (), (0, 2, ("*",)))
        nm = short_key(key).split("::")[-1]
        n_err = 0
        for v, got in sorted(rows.items(), key=str):
            ref = spec.get(v)
            if ref is None:
                continue
            want_err = {(frozenset((k, bool(val)) for k, val in row["when"].items()), row["result"]) for row in ref if row["result"].startswith("Err")}
            for (facts, assigns, result) in sorted(got, key=str):
                if assigns:
                    rep.violation("R01.9", "%s|%s|validator-assigns" % (nm, v), "validator %s, %s" % (nm, v),
                                  "the validator changes the stored state: %s" % sorted(assigns), where=g.where(g.entry))
                if not result.startswith("Err"):
                    continue
                n_err += 1
                if (facts, result) in want_err:
                    rep.ok("R01.9", "%s: %s refuses %s" % (nm, v, result), "when {%s}: a reference refusal" % ", ".join("%s=%s" % kv for kv in sorted(facts)),
                           where=g.where(g.entry))
                else:
                    rep.violation("R01.9", "%s|%s|refusal-not-in-reference:%s" % (nm, v, ", ".join("%s=%s" % kv for kv in sorted(facts))[:90]),
                                  "validator %s, %s" % (nm, v),
                                  "the validator refuses (%s) when {%s}; the sequential specification has no such refusal for %s (its refusals: %s): a "
                                  "write the reference log accepts returns an error" %
                                  (result, ", ".join("%s=%s" % kv for kv in sorted(facts)), v,
                                   " | ".join("{%s} -> %s" % (", ".join("%s=%s" % kv for kv in sorted(f_)), r_) for f_, r_ in sorted(want_err, key=str)) or "none"),
                                  where=g.where(g.entry))
        rep.floor("R01.9", "Err rows of validator %s" % nm, n_err, 3)


# --------------------------------------------------------------------------------------

def r01_5(ctx, rep, key):
    g = ctx.graph(key)
    P = ctx.product(key)
    REC = (0, 2, ("*",))
    LOG = lambda e: e == ("field", ("arg", 1), "log")
    CACHE = lambda e: is_field(e, "cache") and has_field(e, "payload_cache")

    def x(v, i):
        return ("field", ("as", ("arg", 2), v), str(i))

    def step(ms, pi, qi, learn):
        ev = ms
        n = P.gnode(pi)
        inst = g.inst(n)
        t = g.term(n)
        if t["k"] == "call" and n not in g.callee_inst and not t.get("exp"):
            a = [strip_ids(z) for z in event_args(g, n)]
            nm = cpath(t).split("::")[-1]
            if a and LOG(a[0]) and mut_first_arg(g, n):
                ev = ev | {("log." + nm, tuple(render(z) for z in a[1:]), n)}
            if a and CACHE(a[0]) and mut_first_arg(g, n) and nm in ("insert", "clear"):
                ev = ev | {("cache." + nm, tuple(render(z) for z in a[1:]), n)}
        for si, s in enumerate(g.stmts(n)):
            if s["k"] == "assign" and s["p"]["proj"] and s["p"]["proj"][0] == "deref":
                pe = strip_ids(g.prov_place(inst, s["p"]))
                if LOG(pe):
                    ev = ev | {("log:=", (render(strip_ids(g.prov_rvalue(inst, s["rv"], None))),), n)}
        return ev
    seen = run_monitor(P, frozenset(), step)
    per = {}
    for (pi, ms0, ms) in finals(P, seen, step):
        if P.gnode(pi) not in g.exits:
            continue
        vt = P.tags(pi).get(REC)
        res = P.tags_after_block(pi).get((0, 0, ()))
        if not (res and res[0] == "Ok"):
            continue
        per.setdefault(vt[0] if vt else None, []).append({(e[0], e[1]) for e in ms})
    def has(evs, kind, pred=lambda a: True):
        return any(k == kind and pred(a) for (k, a) in evs)

    for v, paths in sorted(per.items(), key=lambda z: str(z[0])):
        where = g.where(g.entry)
        if v == "Append":
            for evs in paths:
                ins = [a for (k, a) in evs if k == "log.insert"]
                ok_ins = len(ins) == 1 and ins[0][0] == "log_index(x0)" and ins[0][1].startswith("LogData{x0, arg3, arg4}")
                ok_cache = has(evs, "cache.insert", lambda a: a[0] == "x0" and a[1] == "x1")
                if ok_ins and ok_cache and not has(evs, "log.split_off") and not has(evs, "log:="):
                    continue
                what = "index insert %s" % (ins,) if not ok_ins else "the payload is not put into the cache on this accepted path"
                rep.violation("R01.5", "Append|%s" % ("index-insert" if not ok_ins else "cache-insert-missing"), "Append: index/cache effects",
                              "an accepted Append does not perform log.insert(log_index(id), LogData{id, chunk_id, segment}) + cache.insert(id, payload) "
                              "on every path (%s): entries of the open chunk are only readable from the cache, so the entry becomes unreadable" % what,
                              where=where)
                break
            else:
                rep.ok("R01.5", "Append", "log.insert(log_index(x0), LogData{x0, chunk_id, segment}); cache.insert(x0, x1) on all %d accepted path(s)" % len(paths), where=where)
        elif v == "TruncateAfter":
            bad = None
            for evs in paths:
                so = [a for (k, a) in evs if k == "log.split_off"]
                if not (len(so) == 1 and so[0][0] == "next_log_index(x0)") or has(evs, "log:=") or has(evs, "log.insert"):
                    bad = evs
            if bad is not None:
                rep.violation("R01.5", "TruncateAfter|index-effects", "TruncateAfter: index effects",
                              "truncation must split the index at next_log_index(x) and DROP the upper part: %s" % sorted(bad), where=where)
            else:
                rep.ok("R01.5", "TruncateAfter", "log.split_off(next_log_index(x0)) with the result dropped, on all %d path(s)" % len(paths), where=where)
        elif v == "PurgeUpto":
            bad = None
            for evs in paths:
                so = [a for (k, a) in evs if k == "log.split_off"]
                asg = [a for (k, a) in evs if k == "log:="]
                if not (len(so) == 1 and so[0][0] == "next_log_index(Some(x0))" and len(asg) == 1 and asg[0][0].startswith("split_off(")) \
                        or has(evs, "log.insert"):
                    bad = evs
            if bad is not None:
                rep.violation("R01.5", "PurgeUpto|index-effects", "PurgeUpto: index effects",
                              "purge must keep exactly the upper part: log := log.split_off(next_log_index(Some(x))): %s" % sorted(bad), where=where)
            else:
                rep.ok("R01.5", "PurgeUpto", "log := log.split_off(next_log_index(Some(x0))) on all %d path(s)" % len(paths), where=where)
        else:
            bad = [evs for evs in paths if any(k.startswith("log") or k.startswith("cache") for (k, a) in evs)]
            if bad:
                rep.violation("R01.5", "%s|touches-index-or-cache" % v, "%s: index effects" % v,
                              "a %s record must not change the index map or the payload cache: %s" % (v, sorted(bad[0])), where=where)
            else:
                rep.ok("R01.5", str(v), "touches neither the index map nor the cache", where=where, nontrivial=False)
    rep.floor("R01.5", "variants with accepted paths", len(per), 6)


def r01_1_2(ctx, rep):
    ops = [k for k in ctx.write_entries() if not k.endswith("::flush")]
    for key in ops:
        op = short_key(key).split("::")[-1]
        g = ctx.graph(key)
        P = ctx.product(key)
        encs = [n for n, sub in g.callee_inst.items() if re.search(r"WALRecord<T> as codeq::Encode>::encode$", sub.key) and n in P.live
                and len(event_args(g, n)) > 1 and has_field(strip_ids(event_args(g, n)[1]), "pending_data")]
        applies = inlined_calls(g, APPLY_KEY, P.live)
        if not rep.expect("R01.1", "%s: journal + apply" % op, bool(encs) and bool(applies)):
            continue
        eo = [call_outcome(P, n) for n in encs]
        ao = [call_outcome(P, n) for n in applies]
        repl = set(n for n in P.calls(r"mem::replace$") if is_field(strip_ids(event_args(g, n)[0]), "open"))
        pushes = {n for n in P.calls(r"Vec::<T, A>::push$") if is_field(strip_ids(event_args(g, n)[0]), "global_offsets")
                  and has_field(strip_ids(event_args(g, n)[0]), "open")}

        is_batch = lambda e: e in (("arg", 2), ("arg", 3)) or (contains(e, lambda x: x in (("arg", 2), ("arg", 3)))
                                                                 and not contains(e, lambda x: x == ("arg", 1)))
        bounds = element_boundaries(g, P, is_batch)
        batch_next = {n for n in bounds if g.term(n)["k"] == "call" and cmatch(g.term(n), r"iter::Iterator>?::next$")}
        batch_enter = bounds - batch_next      # entry of a closure run once per element (try_fold / try_for_each / for_each)

        def step(ms, pi, qi, learn):
            j, a, pushed, replaced = ms
            n = P.gnode(pi)
            if n in batch_enter:
                if j is False or a is False:
                    return ("INCOMPLETE", a, pushed, replaced)
                j, a, pushed, replaced = False, False, False, False   # an element was taken: it must be journalled and applied
            if j == "INCOMPLETE":
                return ms
            if n in batch_next:
                j, a, pushed, replaced = None, None, False, False     # per element of a batch
            if n in pushes:
                pushed = True
            if n in repl:
                replaced = True
            for o, v in norm_learn(learn):
                if origin_call(o) in batch_next and v in OKV:
                    j, a = False, False       # an element was taken: it must be journalled and applied
            for f in eo:
                if f(pi, qi, learn) == "ok":
                    j = True
            for f in ao:
                if f(pi, qi, learn) == "ok":
                    a = bool(a or j)         # apply counts only after the journal
            return (j, a, pushed, replaced)
        seen = run_monitor(P, ((None, None, False, False) if bounds else (False, False, False, False)), step)
        bad = None
        for (pi, ms) in seen:
            if P.gnode(pi) in batch_next and (ms[0] is False or ms[1] is False):
                bad = (pi, ms)         # the previous element of the batch was not journalled + applied
            if ms[0] == "INCOMPLETE":
                bad = (pi, ms)
        for (pi, ms0, ms) in finals(P, seen, step):
            if P.gnode(pi) in g.exits and not exit_is_err(P, pi) and not (ms[0] and ms[1]):
                # admitted no-ops: purge below the purged point; a batch with no (further) element
                if op == "purge" and not ms[0] and not ms[1]:
                    continue
                if ms[0] is None and ms[1] is None:
                    continue
                bad = (pi, ms0)
        if bad:
            rep.violation("R01.1", "%s|ok-without-journal+apply" % op, "%s: Ok return" % op,
                          "%s can return Ok without having journalled its record and then applied it" % op, where=g.where(P.gnode(bad[0])),
                          path=describe_path(P, [k[0] for k in path_to(seen, bad)]))
        else:
            rep.ok("R01.1", "%s: Ok => journal Ok then apply Ok" % op, "", where=g.where(g.entry))
        # same record
        for an in applies:
            ra = strip_ids(event_args(g, an)[1])
            same = any(strip_ids(event_args(g, en)[0]) == ra for en in encs)
            if same:
                rep.ok("R01.1", "%s: applied record == journalled record" % op, expr_s(ra)[:60], where=g.where(an), nontrivial=False)
            else:
                rep.violation("R01.1", "%s|applied-record-differs" % op, "%s: apply" % op,
                              "the record applied to the state machine is not the record that was journalled", where=g.where(an))
            # R01.2 arguments
            a = [strip_ids(z) for z in event_args(g, an)]
            cid, seg = a[2], a[3]
            cid_ok = isinstance(cid, tuple) and cid[0] == "agg" and str(cid[1]).endswith("ChunkId") and \
                is_index(cid[3][0], lambda b: is_field(b, "global_offsets") and has_field(b, "open"), 0)
            seg_ok = c11.is_last_segment(seg, lambda b: is_field(b, "global_offsets") and has_field(b, "open"))
            # read after push, before replace
            lens = set()

            def collect(z):
                if isinstance(z, tuple):
                    if len(z) > 3 and z[0] == "call" and re.search(r"Vec::<T, A>::len$|Index<I>>::index$", z[1]):
                        lens.add(z[3])
                    for y in z:
                        if isinstance(y, tuple):
                            collect(y)
            collect(event_args(g, an)[2])
            collect(event_args(g, an)[3])
            late = any(P.gnode(pi) in lens and ms[3] for (pi, ms) in seen)
            early = any(P.gnode(pi) in lens and not ms[2] for (pi, ms) in seen)
            if cid_ok and seg_ok and not late and not early:
                rep.ok("R01.2", "%s: apply(chunk_id, segment)" % op, "open chunk's id and last segment, read after the journal push, before rotation",
                       where=g.where(an))
            else:
                rep.violation("R01.2", "%s|apply-args:%s%s%s" % (op, "" if cid_ok else "chunk_id,", "" if seg_ok else "segment,", "timing" if (late or early) else ""),
                              "%s: apply arguments" % op,
                              "the index entry recorded for this write does not point at the record just journalled (chunk_id ok=%s, segment ok=%s, "
                              "read-before-journal=%s, read-after-rotation=%s)" % (cid_ok, seg_ok, early, late), where=g.where(an))


def r01_4(ctx, rep):
    # ---- truncate ----
    key = ctx.body_key(WRITER_RX % "truncate")
    SP = (("arg", 1), ("none",), ("state_machine", "log_state"))
    g, P, rows = extract_rows(ctx, key, ("arg", 1), ("none",), ("state_machine", "log_state"), (0, 99, ()))
    encs = [n for n, sub in g.callee_inst.items() if re.search(r"WALRecord<T> as codeq::Encode>::encode$", sub.key) and n in P.live
            and len(event_args(g, n)) > 1 and has_field(strip_ids(event_args(g, n)[1]), "pending_data")]
    # (a) what the journalled record may carry: TruncateAfter(x), x from exactly two sources (looked through helpers, locals, combinators)
    vals = set()
    shape_ok = bool(encs)
    for n in encs:
        raw = event_args(g, n)[0]
        if not (isinstance(raw, tuple) and raw and raw[0] == "agg" and raw[2] == "TruncateAfter" and len(raw[3]) == 1):
            shape_ok = False
            continue
        for x in value_sources(g, raw[3][0]):
            vals.add(render(strip_pass(strip_ids(x)), *SP))
    detail = " | ".join(sorted(vals))
    LOOKUP = r"get\(arg1\.state_machine\.log, checked_sub\(arg2, 1\)\)"
    src_ok = shape_ok and len(vals) == 2 and "state.purged" in vals and \
        any(re.match(r"Some\(.*%s.*log_id\)$" % LOOKUP, v) for v in vals)
    # (b) which source on which path: the record is journalled only after `index == next_log_index(purged)` was found true, or found false
    #     and the index map had an entry at index-1; the refusal LogIndexNotFound only with the selector false
    gets = [n for n in P.calls(r"BTreeMap::<K, V, A>::get$")
            if re.search(LOOKUP, render(strip_pass(strip_ids(("call", "get", tuple(event_args(g, n))))), *SP))]
    gset = set(gets)
    eo = [call_outcome(P, n) for n in encs]
    want = ("eq(arg2, next_log_index(state.purged))", "eq(next_log_index(state.purged), arg2)")

    def step_t(ms, pi, qi, learn):
        sel, found, j = ms
        for f in eo:
            if f(pi, qi, learn) in ("ok", "err"):
                j = True
        for o, v in norm_learn(learn):
            cn = origin_call(o)
            if cn in gset and v in ("Some", "None"):
                found = (v == "Some")
            e = origin_stmt_expr(g, o)
            if e is not None and e[0] == "binop" and v in ("true", "false"):
                a = render(strip_ids(e[2]), *SP)
                b = render(strip_ids(e[3]), *SP)
                k, truth = canon_pred(e[1].lower(), a, b, v == "true")
                if k in want:
                    sel = truth
        return (sel, found, j)
    seen_t = run_monitor(P, (None, None, False), step_t)
    bad_t = None
    for n in encs:
        for (pi, ms) in seen_t:
            if P.gnode(pi) == n and not (ms[0] is True or (ms[0] is False and ms[1] is True)):
                bad_t = ("journal", ms)
    for (pi, ms0, ms) in finals(P, seen_t, step_t):
        if P.gnode(pi) in g.exits and exit_is_err(P, pi) and not ms[2] and ms[0] is not False:
            bad_t = ("refusal-with-selector-%s" % ms[0], ms)
    sel = any(any(k in want for (k, v) in row[0]) for rs in rows.values() for row in rs)
    if src_ok and sel and bad_t is None:
        rep.ok("R01.4", "truncate(index)", "index == next_log_index(purged) -> TruncateAfter(purged); else TruncateAfter(Some(log[index-1].log_id)) (%s)" % detail[:120],
               where=g.where(g.entry))
    else:
        rep.violation("R01.4", "truncate|record-mapping", "truncate(index)",
                      "truncate does not journal TruncateAfter(purged) for index == next_log_index(purged) and TruncateAfter(Some(log id at index-1)) "
                      "otherwise: payload sources {%s}, selector found=%s, path check: %s" % (detail[:200], sel, bad_t), where=g.where(g.entry))
    # ---- purge ----
    key = ctx.body_key(WRITER_RX % "purge")
    g, P, rows = extract_rows(ctx, key, ("arg", 1), ("none",), ("state_machine", "log_state"), (0, 99, ()))
    encs = [n for n, sub in g.callee_inst.items() if re.search(r"WALRecord<T> as codeq::Encode>::encode$", sub.key) and n in P.live
            and len(event_args(g, n)) > 1 and has_field(strip_ids(event_args(g, n)[1]), "pending_data")]
    eo = [call_outcome(P, n) for n in encs]
    want = "lt(log_index(arg2), next_log_index(state.purged))"

    def step(ms, pi, qi, learn):
        skip, j = ms
        for f in eo:
            if f(pi, qi, learn) == "ok":
                j = True
        for o, v in norm_learn(learn):
            e = origin_stmt_expr(g, o)
            if e is not None and e[0] == "binop" and v in ("true", "false"):
                a = render(strip_ids(e[2]), ("arg", 1), ("none",), ("state_machine", "log_state"))
                b = render(strip_ids(e[3]), ("arg", 1), ("none",), ("state_machine", "log_state"))
                k, truth = canon_pred(e[1].lower(), a, b, v == "true")
                if k == want:
                    skip = truth
        return (skip, j)
    seen = run_monitor(P, (None, False), step)
    bad = None
    n_ok = 0
    for (pi, ms0, ms) in finals(P, seen, step):
        if P.gnode(pi) in g.exits and not exit_is_err(P, pi):
            n_ok += 1
            if ms[0] is None or (ms[0] is True and ms[1]) or (ms[0] is False and not ms[1]):
                bad = (pi, ms)
    recs = {strip_ids(event_args(g, n)[0]) for n in encs}
    rec_ok = recs == {("agg", "raft_log::wal::wal_record::WALRecord", "PurgeUpto", (("arg", 2),))}
    if bad is None and rec_ok and n_ok:
        rep.ok("R01.4", "purge(upto)", "log_index(upto) < next_log_index(purged) -> Ok without a record; otherwise journal PurgeUpto(upto)", where=g.where(g.entry))
    else:
        rep.violation("R01.4", "purge|record-mapping", "purge(upto)",
                      "purge does not follow: no-op iff log_index(upto) < next_log_index(purged), else journal PurgeUpto(upto) (selector state %s, record %s)"
                      % (bad[1] if bad else None, [expr_s(x)[:40] for x in recs]), where=g.where(g.entry))


def _journalled_records(ctx, key):
    g = ctx.graph(key)
    P = ctx.product(key)
    encs = [n for n, sub in g.callee_inst.items() if re.search(r"WALRecord<T> as codeq::Encode>::encode$", sub.key) and n in P.live
            and len(event_args(g, n)) > 1 and has_field(strip_ids(event_args(g, n)[1]), "pending_data")]
    return g, P, encs


def _state_payload_fields(ctx, g, e, names):
    """field-wise sources of a RaftLogState value: {field: set(expr)}; handles an aggregate (incl. struct-update syntax) and a mutable local
    that is initialised as a whole and then has single fields assigned"""
    e = strip_ids(e) if not (isinstance(e, tuple) and e and e[0] == "var") else e
    if isinstance(e, tuple) and e and e[0] == "agg" and str(e[1]).endswith("RaftLogState") and len(e[3]) == len(names):
        return {nm: {strip_ids(x)} for nm, x in zip(names, e[3])}
    if isinstance(e, tuple) and e and e[0] == "var":
        vi = g.insts[e[1]]
        whole, per = set(), {}
        for d in g.prog.defs(vi.key).get(e[2], []):
            if d[0] == "s":
                st = vi.body["blocks"][d[1]]["stmts"][d[2]]
                v = strip_ids(g.prov_rvalue(vi, st["rv"], None))
                fl = [el for el in st["p"]["proj"] if isinstance(el, dict) and "f" in el]
                if fl:
                    per.setdefault(fl[0].get("n"), set()).add(v)
                else:
                    whole.add(v)
            else:
                whole.add(strip_ids(g.prov_call(vi, d[1])))
        out = {}
        for nm in names:
            if nm in per:
                out[nm] = per[nm]
            else:
                out[nm] = set()
                for w in whole:
                    sub = _state_payload_fields(ctx, g, w, names)
                    out[nm] |= sub[nm] if sub else {("field", w, nm)}
        return out
    return {nm: {("field", e, nm)} for nm in names}


def r01_10(ctx, rep):
    """R01.10: which record an operation journals (the operations R01.4 does not cover)."""
    rep.rule("R01.10", "operation -> record table: save_vote(v) journals SaveVote(v); commit(id) journals Commit(id); append journals, per element, "
                       "Append(that element's log id, that element's payload); update_state(s) journals State(s); save_user_data(d) journals "
                       "State(stored state with user_data := d and every other declared field unchanged)")
    STATE = ("field", ("field", ("arg", 1), "state_machine"), "log_state")
    elem = ("okval", ("call", "std::iter::Iterator::next", (("arg", 2),)))
    WANT = {
        "save_vote": ("SaveVote", (("arg", 2),)),
        "commit": ("Commit", (("arg", 2),)),
        "append": ("Append", (("field", elem, "0"), ("field", elem, "1"))),
    }
    adt = ctx.facts.adts.get("raft_log::state_machine::raft_log_state::RaftLogState")
    names = [f["name"] for f in adt["variants"][0]["fields"]] if adt else []
    rep.floor("R01.10", "declared fields of RaftLogState", len(names), 5)
    ops = [(op, ctx.body_key(WRITER_RX % op)) for op in ("save_vote", "commit", "append", "save_user_data")]
    ops.append(("update_state", ctx.body_key(r"RaftLog::<T>::update_state$")))
    for op, key in ops:
        g, P, encs = _journalled_records(ctx, key)
        if not rep.expect("R01.10", "%s: journal event" % op, len(encs) >= 1, "no encode into pending_data found in Op(%s)" % op):
            continue
        for n in encs:
            raw = event_args(g, n)[0]
            rec = strip_ids(raw)
            if not (isinstance(rec, tuple) and rec and rec[0] == "agg" and str(rec[1]).endswith("WALRecord")):
                rep.unresolved("R01.10", "%s: record shape" % op, "the journalled record is not a WALRecord aggregate: %s" % expr_s(rec)[:80], where=g.where(n))
                continue
            variant, payload = rec[2], rec[3]
            if op in WANT:
                wv, wp = WANT[op]
                same = variant == wv and tuple(payload) == wp
                if not same and op == "append" and variant == "Append" and len(payload) == 2:
                    # the element of the caller's iterator, however it is taken (for / next() / the argument of a closure run by an
                    # adaptor over the entries): both parts are the two fields of ONE element value that is not stored state
                    a, b = payload
                    if is_field(a, "0") and is_field(b, "1") and a[1] == b[1] and not has_field(a[1], "state_machine") and \
                            (a[1][0] == "cl_arg" or contains(a[1], lambda x: x == ("arg", 2))):
                        same = True
                if same:
                    rep.ok("R01.10", "%s -> %s(%s)" % (op, variant, ", ".join(expr_s(x)[:40] for x in payload)), "", where=g.where(n))
                else:
                    rep.violation("R01.10", "%s|journals:%s(%s)" % (op, variant, ", ".join(expr_s(x)[:40] for x in payload)[:80]), "Op(%s)" % op,
                                  "%s journals %s(%s) instead of %s(%s): the write the caller asked for is not the write that is recorded and applied"
                                  % (op, variant, ", ".join(expr_s(x)[:50] for x in payload), wv, ", ".join(expr_s(x)[:50] for x in wp)), where=g.where(n))
                continue
            if variant != "State" or len(payload) != 1:
                rep.violation("R01.10", "%s|journals:%s" % (op, variant), "Op(%s)" % op, "%s journals a %s record instead of State" % (op, variant), where=g.where(n))
                continue
            # payload with ids kept when it is a local variable (its stores are looked up)
            p_raw = raw[3][0] if (isinstance(raw, tuple) and raw[0] == "agg") else payload[0]
            p_use = p_raw if (isinstance(p_raw, tuple) and p_raw and p_raw[0] == "var") else payload[0]
            if op == "update_state":
                if payload[0] == ("arg", 2):
                    rep.ok("R01.10", "update_state -> State(arg)", "", where=g.where(n))
                else:
                    fl = _state_payload_fields(ctx, g, p_use, names)
                    bad = [nm for nm in names if fl[nm] != {("field", ("arg", 2), nm)}]
                    if bad:
                        rep.violation("R01.10", "update_state|state-fields:%s" % ",".join(bad), "Op(update_state)",
                                      "update_state does not journal the state it was given (fields %s differ)" % bad, where=g.where(n))
                    else:
                        rep.ok("R01.10", "update_state -> State(arg, field by field)", "", where=g.where(n))
                continue
            fl = _state_payload_fields(ctx, g, p_use, names)
            bad = []
            for nm in names:
                want = {("arg", 2)} if nm == "user_data" else {("field", STATE, nm)}
                if fl.get(nm) != want:
                    bad.append("%s<=%s" % (nm, "|".join(sorted(expr_s(x)[:40] for x in fl.get(nm, [])))))
            if bad:
                rep.violation("R01.10", "save_user_data|state-fields:%s" % ";".join(bad)[:100], "Op(save_user_data)",
                              "save_user_data journals a State record that is not `stored state with user_data := argument`: %s" % "; ".join(bad)[:300],
                              where=g.where(n))
            else:
                rep.ok("R01.10", "save_user_data -> State(stored state, user_data := arg)", "%d fields" % len(names), where=g.where(n))


def r01_7(ctx, rep):
    key = ctx.body_key(r"RaftLog::<T>::read$")
    g = ctx.graph(key)
    P = ctx.product(key)
    rng = P.calls(r"BTreeMap::<K, V, A>::range$")
    if rep.expect("R01.7", "read: range over the index map", len(rng) == 1):
        a = [strip_ids(x) for x in event_args(g, rng[0])]
        end = a[1][3][1] if (a[1][0] == "agg" and len(a[1][3]) == 2) else None
        end_ok = end == ("arg", 3) or (call_is(end, r"cmp::Ord::max$") and set(end[2]) == {("arg", 2), ("arg", 3)})
        ok = a[0] == ("field", ("field", ("arg", 1), "state_machine"), "log") and a[1][0] == "agg" and "Range" in str(a[1][1]) \
            and not str(a[1][1]).endswith("RangeInclusive") and a[1][3][0] == ("arg", 2) and end_ok
        if ok:
            rep.ok("R01.7", "read(from, to)", "state_machine.log.range(from..to')", where=g.where(rng[0]))
        else:
            rep.violation("R01.7", "read|range-args", "read(from, to)", "read does not range over the index map with its arguments: %s" % [expr_s(x)[:50] for x in a],
                          where=g.where(rng[0]))
    # the closure yields (entry.log_id, payload) ; payload on a hit is the cached value for that id
    ck = ctx.body_key(r"RaftLog::<T>::read::\{closure#0\}$")
    gc = ctx.graph(ck)
    Pc = ctx.product(ck)
    oks = []
    for n in Pc.live:
        for s in gc.stmts(n):
            if s["k"] == "assign" and s["rv"]["k"] == "agg" and s["rv"].get("variant") == "Ok" and s["p"]["l"] == 0 and not s["p"]["proj"]:
                oks.append(strip_ids(gc.prov_operand(gc.inst(n), s["rv"]["fields"][0])))
    good = False
    for e in oks:
        if e[0] == "agg" and e[1] == "tuple" and len(e[3]) == 2 and is_field(e[3][0], "log_id"):
            good = True
    if good:
        rep.ok("R01.7", "read closure yields (entry.log_id, payload)", "", where=gc.where(gc.entry))
    else:
        rep.violation("R01.7", "read|yielded-id", "read closure", "the yielded log id is not the index entry's own log id: %s" % [expr_s(e)[:60] for e in oks],
                      where=gc.where(gc.entry))
