"""C02 -- clean restart equivalence: replaying the journal through the same transition function reproduces the live state.
R02.1 single writer of replicated state; R02.2 journal-before-apply, and no journalled record can be refused by apply (=R01.1 + R06.1);
R02.3 replay completeness and order; R02.4 head snapshot = state after the filling record; R02.5 snapshot replaces and serialises
everything (=R01.3 State row + R12.3); R02.6 reuse of the last chunk (=R10.4, R05.3); R02.7 replay independent of chunk limits."""
import re

from engine import (cmatch, cpath, expr_s, norm_learn, run_monitor, path_to, describe_path, strip_ids, OKV, ERRV, contains, finals)
from helpers import *
from common import rel
import c01
import c05
import c06
import c09
import c10
import c12
from c03 import _Filter

APPLY_KEY = c01.APPLY_KEY
NEXT_RX = r"iter::Iterator>?::next$"


def descends_from(g, inst, key_rx):
    i = inst
    while i is not None:
        if re.search(key_rx, i.key):
            return True
        i = i.parent
    return False


def run(ctx, rep):
    rep.rule("R02.1", "the replicated state (RaftLogStateMachine.log / .log_state and the stored RaftLogState's fields) is written only inside "
                      "StateMachine::apply (or RaftLogStateMachine::new); no lib caller of log_state_mut / set_last")
    rep.rule("R02.2", "= R01.1 (journal Ok before apply Ok, same record) + R06.1 (a journalled record cannot be refused by apply: replay would fail)")
    rep.rule("R02.3", "open applies every record the chunk loader returned, in order, through the same apply, with this chunk's id and "
                      "(offsets[i], offsets[i+1]-offsets[i]); an apply error returns from open")
    rep.rule("R02.4", "the State record at the head of a new chunk is clone(state_machine.log_state) taken after the filling record was applied; "
                      "open's fresh chunk gets the state after the replay loop")
    rep.rule("R02.5", "= R01.3 State row + R12.3 (all declared fields are encoded and decoded)")
    rep.rule("R02.6", "= R10.4 (a truncated last chunk is not reused) + R05.3 (new chunk starts at the recovered end)")
    rep.rule("R02.7", "replay does not read the chunk limits: no Config::chunk_max_* in Op(open) before the worker is set up; apply reads no Config at all")

    # ---------------- R02.1 -------------------------------------------------------------
    entries = ctx.write_entries() + [ctx.body_key(r"RaftLog::<T>::open$"), ctx.body_key(r"RaftLog::<T>::read::\{closure#0\}$"),
                                     ctx.body_key(r"RaftLog::<T>::stat$"), ctx.body_key(r"RaftLog::<T>::dump_data$")]
    n_w = 0
    seen_sites = set()
    for key in entries:
        g = ctx.graph(key)
        P = ctx.product(key)
        op = short_key(key).split("::")[-1]
        for n in sorted(P.live):
            inst = g.inst(n)
            in_apply = descends_from(g, inst, APPLY_KEY) or descends_from(g, inst, r"RaftLogStateMachine::<T>::new$")
            hits = []
            for si, s in enumerate(g.stmts(n)):
                if s["k"] == "assign" and s["p"]["proj"] and s["p"]["proj"][0] == "deref":
                    pe = strip_ids(g.prov_place(inst, s["p"]))
                    if _is_repl(pe):
                        hits.append(("assign " + expr_s(pe)[-40:], g.where(n, si)))
            t = g.term(n)
            if t["k"] == "call" and n not in g.callee_inst and not t.get("exp") and mut_first_arg(g, n):
                a0 = strip_ids(event_args(g, n)[0])
                if _is_repl(a0) and not cmatch(t, r"DerefMut|Iterator"):
                    hits.append(("%s(&mut %s)" % (cpath(t).split("::")[-1], expr_s(a0)[-40:]), g.where(n)))
            for what, where in hits:
                n_w += 1
                sid = (inst.key, n[1], what)
                if in_apply:
                    continue
                if sid in seen_sites:
                    continue
                seen_sites.add(sid)
                rep.violation("R02.1", "%s|%s" % (short_key(inst.key), what.split("(")[0].split(" ")[0] + ":" + what[-30:]), what,
                              "replicated state is modified outside StateMachine::apply: the change is not in the journal, so a restart "
                              "(which only replays the journal) does not reproduce it", where=where)
    rep.floor("R02.1", "writes to replicated state found (all entries)", n_w, 8)
    if not any(o["rule"] == "R02.1" and o["status"] == "violation" for o in rep.obs):
        rep.ok("R02.1", "writers of log / log_state", "all %d write sites lie inside StateMachine::apply / RaftLogStateMachine::new" % n_w)
    for rx, nm in ((r"RaftLog::<T>::log_state_mut$", "log_state_mut"), (r"RaftLogState::<T>::set_last$", "set_last")):
        callers = [x for x in ctx.all_calls(rx)]
        if callers:
            for b, bi, t in callers:
                rep.violation("R02.1", "%s|calls-%s" % (short_key(b["key"]), nm), nm,
                              "library code obtains a mutable handle to the replicated state outside apply", where="%s:%d" % (rel(t["file"]), t["line"]))
        else:
            rep.ok("R02.1", "callers of %s in the lib" % nm, "0", nontrivial=False)

    # ---------------- R02.2 -------------------------------------------------------------
    c01.r01_1_2(ctx, _Filter(rep, keep=("R01.1",), rename="R02.2/"))
    c06.run(ctx, _Filter(rep, keep=("R06.1",), rename="R02.2/"))

    # ---------------- R02.3 -------------------------------------------------------------
    M = c09.OpenModel(ctx)
    g, P = M.g, M.P
    applies = sorted(M.applies)      # the replay call, wherever open's helpers put it
    if rep.expect("R02.3", "apply call in RaftLog::open", len(applies) == 1, "expected one replay call of apply in open, found %d" % len(applies)):
        an = applies[0]
        a = [strip_ids(x) for x in event_args(g, an)]
        # the record: element of enumerate(into_iter(records returned by the loader))
        rec = a[1]
        src = element_iterator(g, P, event_args(g, an)[1])      # a `for` loop's next(), or an adaptor running a closure per element
        ok_iter = False
        SKIPS = r"Iterator::(filter|skip|take|rev|step_by|skip_while|take_while|filter_map)$"
        pair_form = None          # how the (start, end) of a record's segment is carried by the element when it is not an index
        if src:
            it = src[0]
            ok_iter = call_is(it, r"Iterator::enumerate$") and not contains(it, lambda x: call_is(x, SKIPS))
            if not ok_iter and call_is(it, r"Iterator::zip$"):
                # zip(<consecutive offset pairs>, records): windows(offsets, 2), or zip(offsets, skip(offsets, 1))
                w, r_ = call_arg(it, 0), call_arg(it, 1)
                if not contains(r_, lambda x: call_is(x, SKIPS)):
                    if call_is(w, r"slice::<impl \[T\]>::windows$") and is_const(call_arg(w, 1), 2):
                        ok_iter, pair_form = True, ("windows", call_arg(w, 0))
                    elif call_is(w, r"Iterator::zip$") and call_is(call_arg(w, 1), r"Iterator::skip$") and is_const(call_arg(call_arg(w, 1), 1), 1) \
                            and call_arg(call_arg(w, 1), 0) == call_arg(w, 0) and not contains(call_arg(w, 0), lambda x: call_is(x, SKIPS)):
                        ok_iter, pair_form = True, ("zip", call_arg(w, 0))
        if ok_iter:
            rep.ok("R02.3", "replay iterates all loaded records in order", expr_s(src[0])[:80], where=g.where(src[1]))
        else:
            rep.violation("R02.3", "open|replay-iterator", "replay loop",
                          "the replay loop does not iterate the complete record vector front to back: %s" % (expr_s(src[0])[:90] if src else "?"),
                          where=g.where(an))
        # chunk id + segment arguments
        cid, seg = a[2], a[3]
        chunk_elem = M.chunk_elems()
        cid_ok = cid in chunk_elem
        seg_ok = False
        if call_is(seg, r"Segment::<C>::new$"):
            s0, s1 = call_arg(seg, 0), c11_unfield(call_arg(seg, 1))

            def idx_i(e, plus1):
                if not is_index(e, lambda b: True):
                    return False
                i = call_arg(e, 1) if e[0] in ("call", "ret") else e[2]
                i = c11_unfield(i)
                if plus1:
                    return isinstance(i, tuple) and i[0] == "binop" and i[1].startswith("Add") and is_const(i[3], 1) and is_field(i[2], "0")
                return is_field(i, "0")
            seg_ok = idx_i(s0, False) and isinstance(s1, tuple) and s1[0] == "binop" and s1[1].startswith("Sub") and idx_i(s1[2], True) and idx_i(s1[3], False)
            if not seg_ok and pair_form and src and isinstance(s1, tuple) and s1 and s1[0] == "binop" and s1[1].startswith("Sub"):
                def is_elem(z):
                    return isinstance(z, tuple) and z and z[0] == "okval" and call_is(z[1], NEXT_RX) and strip_ids(call_arg(z[1], 0)) == src[0]

                def is_pair(z):
                    return is_field(z, "0") and is_elem(z[1])

                def part(z, k):
                    z = c11_unfield(strip_ids(z)) if not (isinstance(z, tuple) and z and z[0] in ("idx", "field")) else strip_ids(z)
                    if pair_form[0] == "windows":
                        return is_index(z, is_pair, k)
                    return is_field(z, str(k)) and is_pair(z[1])
                seg_ok = part(s0, 0) and part(s1[2], 1) and part(s1[3], 0)
        if not cid_ok and pair_form:
            # the id of the chunk being replayed read back from the loaded chunk: its first offset
            cid_ok = isinstance(cid, tuple) and cid and cid[0] == "agg" and str(cid[1]).endswith("ChunkId") and cid[3] and \
                is_index(cid[3][0], lambda b: b == pair_form[1], 0)
        if False:
            pass
        if cid_ok and seg_ok:
            rep.ok("R02.3", "replay apply(chunk_id, segment)", "this chunk's id; (offsets[i], offsets[i+1]-offsets[i])", where=g.where(an))
        else:
            rep.violation("R02.3", "open|replay-args:%s%s" % ("" if cid_ok else "chunk_id,", "" if seg_ok else "segment"), "replay apply arguments",
                          "replay records index entries that differ from what the live write recorded (chunk_id ok=%s, segment ok=%s): after a "
                          "restart cache-miss reads look in the wrong place" % (cid_ok, seg_ok), where=g.where(an))
        # exactly one apply per record, error returns
        is_loop = bool(src) and g.term(src[1])["k"] == "call" and cmatch(g.term(src[1]), NEXT_RX)
        if src and not is_loop:
            # adaptor style: the closure body is the loop body
            subs = g.closure_insts.get(src[1], [])
            ao = call_outcome(P, an)
            for sub in subs:
                starts = P.pnodes_of([(sub.id, 0)])
                rets = {(sub.id, bi) for bi, blk in enumerate(sub.body["blocks"]) if not blk["cleanup"] and blk["term"]["k"] == "return"}

                def stepc(ms, pi, qi, learn, sub=sub):
                    cnt, err = ms
                    if P.gnode(pi)[0] == sub.id and P.gnode(pi)[1] == 0 and (cnt or err):
                        return None
                    if P.gnode(pi) == an:
                        cnt = min(cnt + 1, 2)
                    if ao(pi, qi, learn) == "err":
                        err = True
                    return (cnt, err)
                seenc = run_monitor(P, (0, False), stepc, starts=starts)
                badc = None
                for (pi, ms) in seenc:
                    if P.gnode(pi) in rets:
                        cnt, err = stepc(ms, pi, None, ()) or ms
                        r0 = P.tags_after_block(pi).get((sub.id, 0, ()))
                        is_err = bool(r0) and r0[0] in ("Err", "Break", "None")
                        if (err and not is_err) or (not err and cnt != 1):
                            badc = (pi, ms)
                if badc:
                    rep.violation("R02.3", "open|record-not-applied-exactly-once", "replay closure body",
                                  "a loaded record can be skipped, applied twice, or its apply error ignored before the next record is taken",
                                  where=g.where((sub.id, 0)), path=describe_path(P, [k[0] for k in path_to(seenc, badc)]))
                else:
                    rep.ok("R02.3", "replay loop body", "each record is applied exactly once; an apply error ends the iteration (Err result)",
                           where=g.where((sub.id, 0)))
        if is_loop:
            nn = src[1]
            starts = learned_targets(P, lambda o, v: origin_call(o) == nn and v in OKV)
            ao = call_outcome(P, an)

            def step(ms, pi, qi, learn):
                cnt, err = ms
                if P.gnode(pi) == nn:
                    return None
                if P.gnode(pi) == an:
                    cnt = min(cnt + 1, 2)
                if ao(pi, qi, learn) == "err":
                    err = True
                return (cnt, err)
            seen = run_monitor(P, (0, False), step, starts=starts)
            bad = next(((pi, ms) for (pi, ms) in seen if P.gnode(pi) == nn and (ms[0] != 1 or ms[1])), None)
            if bad:
                rep.violation("R02.3", "open|record-not-applied-exactly-once", "replay loop body",
                              "a loaded record can be skipped, applied twice, or its apply error ignored (applies=%d, error seen=%s) before the "
                              "next record is taken" % (bad[1][0], bad[1][1]), where=g.where(nn),
                              path=describe_path(P, [k[0] for k in path_to(seen, bad)]))
            else:
                rep.ok("R02.3", "replay loop body", "each record is applied exactly once; an apply error leaves the loop (Err return)", where=g.where(nn))

    r02_4(ctx, rep)
    go = ctx.graph(ctx.body_key(r"RaftLog::<T>::open$"))
    Po = ctx.product(ctx.body_key(r"RaftLog::<T>::open$"))

    # ---------------- R02.5 / R02.6 -------------------------------------------------------
    sub = _Only(rep, "R01.3", "R02.5/", only_site="State")
    c01.run_tables_only(ctx, sub) if hasattr(c01, "run_tables_only") else None
    c12.run(ctx, _Filter(rep, keep=("R12.3",), rename="R02.5/"))
    c10.run(ctx, _Filter(rep, keep=("R10.4",), rename="R02.6/"))
    c05.run(ctx, _Filter(rep, keep=("R05.3",), rename="R02.6/"))

    # ---------------- R02.8 -------------------------------------------------------------
    rep.rule("R02.8", "= C04's R04.1/R04.7/R04.9: 'flushed and acknowledged' means handed to the worker, written and synced")
    import c04
    c04.run(ctx, _Filter(rep, keep=("R04.1", "R04.7", "R04.9"), rename="R02.8/"))

    # ---------------- R02.7 -------------------------------------------------------------
    ga = ctx.graph(ctx.body_key(APPLY_KEY))
    cfg_in_apply = [i.key for i in ga.insts if re.search(r"config::Config::", i.key)]
    if cfg_in_apply:
        rep.violation("R02.7", "apply|reads-config:%s" % short_key(cfg_in_apply[0]), "StateMachine::apply",
                      "the transition function reads the configuration (%s): replay under a different configuration gives a different state" % cfg_in_apply[:2])
    else:
        rep.ok("R02.7", "StateMachine::apply reads no Config getter", "")
    lim = [i.key for i in go.insts if re.search(r"config::Config::chunk_max_(records|size)$", i.key) and any(n[0] == i.id for n in Po.live)]
    if lim:
        rep.violation("R02.7", "open|reads-chunk-limits", "RaftLog::open", "replay consults the chunk limits (%s): the recovered state depends on the new configuration" % lim[:2])
    else:
        rep.ok("R02.7", "open does not read chunk_max_records / chunk_max_size", "")


def r02_4(ctx, rep):
    # ---------------- R02.4 -------------------------------------------------------------
    creators = chunk_creators(ctx)
    for key in [k for k in ctx.write_entries() if not k.endswith("::flush")]:
        op = short_key(key).split("::")[-1]
        gw = ctx.graph(key)
        Pw = ctx.product(key)
        crs = [n for n, sub in gw.callee_inst.items() if sub.key in creators and n in Pw.live]
        applies_w = inlined_calls(gw, APPLY_KEY, Pw.live)
        ao = [call_outcome(Pw, n) for n in applies_w]

        def stepw(ms, pi, qi, learn, ao=ao):
            for f in ao:
                if f(pi, qi, learn) == "ok":
                    ms = True
            return ms
        seenw = run_monitor(Pw, False, stepw)
        for n in crs:
            args = [strip_ids(x) for x in event_args(gw, n)]
            st = [x for x in args if isinstance(x, tuple) and x and x[0] == "agg" and x[2] == "State"]
            v = st[0][3][0] if st else None
            src_ok = v is not None and v == ("field", ("field", ("arg", 1), "state_machine"), "log_state")
            # the clone is taken by a closure / call executed after apply: the snapshot-taking read happens after apply Ok
            early = next(((pi, ms) for (pi, ms) in seenw if Pw.gnode(pi) == n and not ms), None)
            # the clone that produces the snapshot must itself happen after the filling record was applied
            with gw.with_clones():
                cl_nodes = set()

                def collect(z):
                    if isinstance(z, tuple):
                        if len(z) > 3 and z[0] == "call" and z[1] == "clone":
                            cl_nodes.add(z[3])
                        for y in z:
                            if isinstance(y, tuple):
                                collect(y)
                for a_ in event_args(gw, n):
                    collect(a_)
            if early is None:
                early = next(((pi, ms) for (pi, ms) in seenw if Pw.gnode(pi) in cl_nodes and not ms), None)
            if src_ok and not early:
                rep.ok("R02.4", "%s: head snapshot of the new chunk" % op, "State(clone(state_machine.log_state)) after the filling record was applied",
                       where=gw.where(n))
            else:
                rep.violation("R02.4", "%s|head-snapshot:%s" % (op, "source" if not src_ok else "before-apply"), "%s: head snapshot" % op,
                              "the State record written at the head of a new chunk is not the stored state after the record that filled the "
                              "previous chunk (%s): a restart that starts from this chunk sees a different state" % (expr_s(v)[:60] if v else "?"),
                              where=gw.where(n))
    go = ctx.graph(ctx.body_key(r"RaftLog::<T>::open$"))
    Po = ctx.product(ctx.body_key(r"RaftLog::<T>::open$"))
    for n, sub in go.callee_inst.items():
        if sub.key in creators and n in Po.live:
            args = [strip_ids(x) for x in event_args(go, n)]
            st = [x for x in args if isinstance(x, tuple) and x and x[0] == "agg" and x[2] == "State"]
            v = st[0][3][0] if st else None
            # sm.log_state of the state machine built in open (RaftLogStateMachine::new -> aggregate): field log_state of that object
            if v is not None and (is_field(v, "log_state") or call_is(v, r"Default>?::default$")):
                rep.ok("R02.4", "open: head snapshot of the fresh chunk", "State(clone(sm.log_state)) after the replay loop", where=go.where(n))
            else:
                rep.violation("R02.4", "open|head-snapshot", "open: head snapshot", "the fresh chunk created by open does not start with the replayed state: %s" % (expr_s(v)[:60] if v else "?"),
                              where=go.where(n))



def c11_unfield(e):
    import c11
    return c11.unfield0(e)


def _is_repl(pe):
    """place / object that is part of the replicated state: <root>.state_machine.{log,log_state...} or, inside apply, self.{log,log_state}"""
    x = pe
    fp = []
    while isinstance(x, tuple) and x and x[0] in ("field", "idx", "as", "okval"):
        if x[0] == "field":
            fp.append(x[2])
        x = x[1]
    fp = list(reversed(fp))
    if "state_machine" in fp:
        i = fp.index("state_machine")
        return len(fp) > i + 1 and fp[i + 1] in ("log", "log_state")
    return False


class _Only:
    def __init__(self, rep, rule, rename, only_site):
        self.rep, self.rule_, self.rename, self.only = rep, rule, rename, only_site

    def rule(self, *a):
        pass

    def __getattr__(self, name):
        f = getattr(self.rep, name)
        if name in ("ok", "violation", "unresolved", "floor", "expect"):
            def g(rule, site, *a, **kw):
                if rule == self.rule_ and self.only in str(site):
                    return f(self.rename + rule, site, *a, **kw)
                return True
            return g
        return f
