"""Loading and pretty-printing of the fact file produced by rlfacts (E1)."""
import json
import re


class Facts:
    def __init__(self, path):
        with open(path) as f:
            text = f.read()
        self.doc = json.loads(text)
        self.renamed_types = renamed_private_types(self.doc)
        if self.renamed_types:
            # give renamed private types their reference names back, everywhere (types, callee paths, body keys)
            for cur, ref in sorted(self.renamed_types.items(), key=lambda kv: -len(kv[0])):
                text = re.sub(r"(?<![\w])%s(?![\w])" % re.escape(cur), ref.replace("\\", "\\\\"), text)
                # short forms without the crate-level module prefix are used in some keys
                cs, rs = cur.split("::"), ref.split("::")
                # a struct's only variant carries the struct's name
                text = re.sub(r'("variant"\s*:\s*")%s(")' % re.escape(cs[-1]), r"\g<1>%s\g<2>" % rs[-1], text)
                text = re.sub(r'(\{\s*"name"\s*:\s*")%s("\s*,\s*"fields")' % re.escape(cs[-1]), r"\g<1>%s\g<2>" % rs[-1], text)
                for k in range(1, len(cs) - 1):
                    text = re.sub(r"(?<![\w:])%s(?![\w])" % re.escape("::".join(cs[k:])), "::".join(rs[k:]), text)
            self.doc = json.loads(text)
        self.renamed = canonicalise_fields(self.doc)
        self.bodies = {b["key"]: b for b in self.doc["bodies"]}
        self.items = self.doc["items"]
        self.adts = {a["path"]: a for a in self.items["adts"]}
        self.traits = {t["path"]: t for t in self.items["traits"]}
        self.impls = self.items["impls"]

    # ---- lookups -------------------------------------------------------------------
    def body(self, key):
        return self.bodies[key]

    def find_bodies(self, pred):
        return [b for b in self.doc["bodies"] if pred(b)]

    def struct_fields(self, adt_path):
        a = self.adts[adt_path]
        return a["variants"][0]["fields"]


# ---- reference names for renamed private fields ---------------------------------------

def _field_alias(ref_fields, cur_fields):
    """{current name -> reference name} for one struct: fields are matched by declared type; equally typed fields by name, else by
    their order among the fields of that type (only when both sides have the same number of them)."""
    alias = {}
    by_ty_ref, by_ty_cur = {}, {}
    for f in ref_fields:
        by_ty_ref.setdefault(f["ty"], []).append(f["name"])
    for f in cur_fields:
        by_ty_cur.setdefault(f["ty"], []).append(f["name"])
    for ty, cur in by_ty_cur.items():
        ref = by_ty_ref.get(ty)
        if not ref or len(ref) != len(cur):
            continue
        if set(ref) == set(cur):
            continue
        keep = set(ref) & set(cur)
        r2 = [x for x in ref if x not in keep]
        c2 = [x for x in cur if x not in keep]
        for c, r in zip(c2, r2):
            alias[c] = r
    taken = {f["name"] for f in cur_fields} - set(alias)
    return {c: r for c, r in alias.items() if r not in taken}


def _load_roles():
    import os
    path = os.path.join(os.path.dirname(os.path.dirname(os.path.abspath(__file__))), "spec", "field_roles.json")
    try:
        return json.load(open(path))
    except Exception:
        return {}


def renamed_private_types(doc):
    """{current path -> reference path} for private structs/enums that replaced a missing reference type of the same module"""
    roles = _load_roles()
    ref_structs, ref_enums, spub = roles.get("structs", {}), roles.get("enums", {}), roles.get("struct_pub", {})
    cur = {a["path"]: a for a in doc["items"]["adts"] if not a["path"].startswith("testing::")}
    out = {}
    missing_s = [p for p in ref_structs if p not in cur and not spub.get(p, True)]
    missing_e = [p for p, e in ref_enums.items() if p not in cur and not e.get("pub", True)]
    new_s = [p for p, a in cur.items() if not a["is_enum"] and p not in ref_structs and not a.get("pub")]
    new_e = [p for p, a in cur.items() if a["is_enum"] and p not in ref_enums and not a.get("pub")]

    def mod(p):
        return p.rsplit("::", 1)[0] if "::" in p else ""
    for r in missing_s:
        rn = r.rsplit("::", 1)[-1]
        cands = []
        for c in new_s:
            if mod(c) != mod(r) or c in out:
                continue
            cn = c.rsplit("::", 1)[-1]
            cf = cur[c]["variants"][0]["fields"]
            rf = ref_structs[r]
            if len(cf) != len(rf):
                continue
            same_names = [f["name"] for f in cf] == [f["name"] for f in rf]
            same_types = [re.sub(r"(?<![\w])%s(?![\w])" % re.escape(cn), rn, f["ty"]) for f in cf] == [f["ty"] for f in rf]
            if same_names or same_types:
                cands.append(c)
        if len(cands) == 1:
            out[cands[0]] = r
    for r in missing_e:
        cands = [c for c in new_e if mod(c) == mod(r) and c not in out
                 and [v["name"] for v in cur[c]["variants"]] == ref_enums[r]["variants"]]
        if len(cands) == 1:
            out[cands[0]] = r
    return out


def canonicalise_fields(doc):
    """rename fields in the fact document to their reference names (spec/field_roles.json); returns {adt: {current: reference}}"""
    ref = _load_roles().get("structs", {})
    if not ref:
        return {}
    renamed = {}
    for a in doc["items"]["adts"]:
        if a["is_enum"] or a["path"] not in ref:
            continue
        al = _field_alias(ref[a["path"]], a["variants"][0]["fields"])
        if al:
            renamed[a["path"]] = al
            for f in a["variants"][0]["fields"]:
                f["name"] = al.get(f["name"], f["name"])
    if not renamed:
        return renamed

    def fix_place(p):
        for el in p.get("proj", []):
            if isinstance(el, dict) and "f" in el and el.get("adt") in renamed and el.get("n") in renamed[el["adt"]]:
                el["n"] = renamed[el["adt"]][el["n"]]

    def walk(o):
        if isinstance(o, dict):
            if "proj" in o and "l" in o:
                fix_place(o)
            if o.get("k") == "agg" and o.get("adt") in renamed and isinstance(o.get("fnames"), list):
                o["fnames"] = [renamed[o["adt"]].get(x, x) for x in o["fnames"]]
            for v in o.values():
                walk(v)
        elif isinstance(o, list):
            for v in o:
                walk(v)
    for b in doc["bodies"]:
        walk(b.get("blocks"))
        walk(b.get("promoted"))
    return renamed


# ---- rendering (for reports / debugging) ----------------------------------------------

def place_s(p, body=None):
    s = "_%d" % p["l"]
    if body is not None:
        n = body["locals"][p["l"]].get("name")
        if n:
            s = "%s(_%d)" % (n, p["l"])
    for e in p["proj"]:
        if e == "deref":
            s = "(*%s)" % s
        elif isinstance(e, str):
            s += "." + e
        elif "f" in e:
            s += "." + (e.get("n") or str(e["f"]))
        elif "dc" in e:
            s = "(%s as %s)" % (s, e["dc"])
        elif "idx" in e:
            s += "[_%d]" % e["idx"]
        elif "cidx" in e:
            s += "[%s%d]" % ("-" if e.get("from_end") else "", e["cidx"])
    return s


def operand_s(o, body=None):
    if o["k"] in ("copy", "move"):
        return ("move " if o["k"] == "move" else "") + place_s(o["p"], body)
    if o["k"] == "const":
        if "fn" in o:
            return "fn:" + o["fn"]["full"]
        return o["v"]
    return o.get("v", "?")


def rvalue_s(rv, body=None):
    k = rv["k"]
    if k == "use":
        return operand_s(rv["a"], body)
    if k == "ref":
        return ("&mut " if rv["mut"] else "&") + place_s(rv["p"], body)
    if k == "rawptr":
        return "&raw " + place_s(rv["p"], body)
    if k == "cast":
        return "%s as %s (%s)" % (operand_s(rv["a"], body), rv["ty"], rv["ck"])
    if k == "binop":
        return "%s(%s, %s)" % (rv["op"], operand_s(rv["a"], body), operand_s(rv["b"], body))
    if k == "unop":
        return "%s(%s)" % (rv["op"], operand_s(rv["a"], body))
    if k == "discr":
        return "discriminant(%s)" % place_s(rv["p"], body)
    if k == "agg":
        fs = ", ".join(operand_s(f, body) for f in rv["fields"])
        if rv["ak"] == "adt":
            return "%s::%s{%s}" % (rv["adt"], rv["variant"], fs)
        if rv["ak"] == "closure":
            return "closure[%s]{%s}" % (rv["closure"], fs)
        return "%s(%s)" % (rv["ak"], fs)
    if k == "repeat":
        return "[%s; _]" % operand_s(rv["a"], body)
    return rv.get("v", k)


def callee_name(t):
    c = t.get("callee")
    if not c:
        return "<indirect %s>" % operand_s(t["callee_op"])
    return c.get("rfull") or c["full"]


def term_s(t, body=None):
    k = t["k"]
    if k == "call":
        a = ", ".join(operand_s(x, body) for x in t["args"])
        return "%s = %s(%s) -> bb%s unwind %s" % (
            place_s(t["dest"], body), callee_name(t), a, t.get("target"), t.get("unwind"))
    if k == "switch":
        ts = ", ".join("%s%s->bb%d" % (x["v"], ("/" + x["variant"]) if "variant" in x else "", x["bb"])
                       for x in t["targets"])
        return "switch(%s) [%s, otherwise->bb%d]" % (operand_s(t["discr"], body), ts, t["otherwise"])
    if k == "assert":
        return "assert(%s == %s, %s%s) -> bb%d" % (
            operand_s(t["cond"], body), t["expected"], t["akind"],
            " synthetic" if t["synthetic"] else "", t["target"])
    if k == "drop":
        return "drop(%s: %s) -> bb%d" % (place_s(t["p"], body), t["ty"], t["target"])
    if k == "goto":
        return "goto bb%d" % t["target"]
    return k


def dump_body(b, cleanup=False):
    out = ["fn %s  [%s:%d] argc=%d" % (b["key"], b["file"], b["line"], b["argc"])]
    for i, l in enumerate(b["locals"]):
        out.append("  let _%d: %s%s" % (i, l["ty"], ("  // " + l["name"]) if "name" in l else ""))
    for i, blk in enumerate(b["blocks"]):
        if blk["cleanup"] and not cleanup:
            continue
        out.append("  bb%d%s:" % (i, " (cleanup)" if blk["cleanup"] else ""))
        for s in blk["stmts"]:
            if s["k"] == "assign":
                out.append("    %s = %s   // :%d" % (place_s(s["p"], b), rvalue_s(s["rv"], b), s["line"]))
            else:
                out.append("    %s" % s["k"])
        t = blk["term"]
        out.append("    %s   // :%d%s" % (term_s(t, b), t["line"], " exp" if t.get("exp") else ""))
    return "\n".join(out)


if __name__ == "__main__":
    import sys
    f = Facts(sys.argv[1])
    for k in sys.argv[2:]:
        for key, b in f.bodies.items():
            if k in key:
                print(dump_body(b))
                print()
