"""Loading and pretty-printing of the fact file produced by rlfacts (E1)."""
import json


class Facts:
    def __init__(self, path):
        with open(path) as f:
            self.doc = json.load(f)
        self.bodies = {b["key"]: b for b in self.doc["bodies"]}
        self.items = self.doc["items"]
        self.adts = {a["path"]: a for a in self.items["adts"]}
        self.traits = {t["path"]: t for t in self.items["traits"]}
        self.impls = self.items["impls"]

    # ---- lookups -------------------------------------------------------------------
    def body(self, key):
        return self.bodies[key]

    def find_bodies(self, pred):
        return [b for b in self.doc["bodies"] if pred(b)]

    def struct_fields(self, adt_path):
        a = self.adts[adt_path]
        return a["variants"][0]["fields"]


# ---- rendering (for reports / debugging) ----------------------------------------------

def place_s(p, body=None):
    s = "_%d" % p["l"]
    if body is not None:
        n = body["locals"][p["l"]].get("name")
        if n:
            s = "%s(_%d)" % (n, p["l"])
    for e in p["proj"]:
        if e == "deref":
            s = "(*%s)" % s
        elif isinstance(e, str):
            s += "." + e
        elif "f" in e:
            s += "." + (e.get("n") or str(e["f"]))
        elif "dc" in e:
            s = "(%s as %s)" % (s, e["dc"])
        elif "idx" in e:
            s += "[_%d]" % e["idx"]
        elif "cidx" in e:
            s += "[%s%d]" % ("-" if e.get("from_end") else "", e["cidx"])
    return s


def operand_s(o, body=None):
    if o["k"] in ("copy", "move"):
        return ("move " if o["k"] == "move" else "") + place_s(o["p"], body)
    if o["k"] == "const":
        if "fn" in o:
            return "fn:" + o["fn"]["full"]
        return o["v"]
    return o.get("v", "?")


def rvalue_s(rv, body=None):
    k = rv["k"]
    if k == "use":
        return operand_s(rv["a"], body)
    if k == "ref":
        return ("&mut " if rv["mut"] else "&") + place_s(rv["p"], body)
    if k == "rawptr":
        return "&raw " + place_s(rv["p"], body)
    if k == "cast":
        return "%s as %s (%s)" % (operand_s(rv["a"], body), rv["ty"], rv["ck"])
    if k == "binop":
        return "%s(%s, %s)" % (rv["op"], operand_s(rv["a"], body), operand_s(rv["b"], body))
    if k == "unop":
        return "%s(%s)" % (rv["op"], operand_s(rv["a"], body))
    if k == "discr":
        return "discriminant(%s)" % place_s(rv["p"], body)
    if k == "agg":
        fs = ", ".join(operand_s(f, body) for f in rv["fields"])
        if rv["ak"] == "adt":
            return "%s::%s{%s}" % (rv["adt"], rv["variant"], fs)
        if rv["ak"] == "closure":
            return "closure[%s]{%s}" % (rv["closure"], fs)
        return "%s(%s)" % (rv["ak"], fs)
    if k == "repeat":
        return "[%s; _]" % operand_s(rv["a"], body)
    return rv.get("v", k)


def callee_name(t):
    c = t.get("callee")
    if not c:
        return "<indirect %s>" % operand_s(t["callee_op"])
    return c.get("rfull") or c["full"]


def term_s(t, body=None):
    k = t["k"]
    if k == "call":
        a = ", ".join(operand_s(x, body) for x in t["args"])
        return "%s = %s(%s) -> bb%s unwind %s" % (
            place_s(t["dest"], body), callee_name(t), a, t.get("target"), t.get("unwind"))
    if k == "switch":
        ts = ", ".join("%s%s->bb%d" % (x["v"], ("/" + x["variant"]) if "variant" in x else "", x["bb"])
                       for x in t["targets"])
        return "switch(%s) [%s, otherwise->bb%d]" % (operand_s(t["discr"], body), ts, t["otherwise"])
    if k == "assert":
        return "assert(%s == %s, %s%s) -> bb%d" % (
            operand_s(t["cond"], body), t["expected"], t["akind"],
            " synthetic" if t["synthetic"] else "", t["target"])
    if k == "drop":
        return "drop(%s: %s) -> bb%d" % (place_s(t["p"], body), t["ty"], t["target"])
    if k == "goto":
        return "goto bb%d" % t["target"]
    return k


def dump_body(b, cleanup=False):
    out = ["fn %s  [%s:%d] argc=%d" % (b["key"], b["file"], b["line"], b["argc"])]
    for i, l in enumerate(b["locals"]):
        out.append("  let _%d: %s%s" % (i, l["ty"], ("  // " + l["name"]) if "name" in l else ""))
    for i, blk in enumerate(b["blocks"]):
        if blk["cleanup"] and not cleanup:
            continue
        out.append("  bb%d%s:" % (i, " (cleanup)" if blk["cleanup"] else ""))
        for s in blk["stmts"]:
            if s["k"] == "assign":
                out.append("    %s = %s   // :%d" % (place_s(s["p"], b), rvalue_s(s["rv"], b), s["line"]))
            else:
                out.append("    %s" % s["k"])
        t = blk["term"]
        out.append("    %s   // :%d%s" % (term_s(t, b), t["line"], " exp" if t.get("exp") else ""))
    return "\n".join(out)


if __name__ == "__main__":
    import sys
    f = Facts(sys.argv[1])
    for k in sys.argv[2:]:
        for key, b in f.bodies.items():
            if k in key:
                print(dump_body(b))
                print()
