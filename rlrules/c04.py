"""C04 -- Flush acknowledgement soundness.  Rules R04.1 .. R04.8 (DESIGN.md section 3)."""
import re

from engine import (Unresolved, cmatch, cpath, expr_s, norm_learn, run_monitor, path_to, describe_path,
                    strip_ids, OKV, ERRV, contains, natural_loops, smallest_loop)
from helpers import *

FILES = lambda e: is_field(e, "files")
SYNC_RX = r"fs::File::sync_(data|all)$"
WRITE_RX = r"io::Write::write_all$|io::Write::write$|FileExt::write_all_at$|FileExt::write_at$|io::Write::write_vectored$"
FILES_REMOVERS = r"Vec::<T, A>::(remove|pop|clear|truncate|retain|retain_mut|swap_remove|drain|split_off|dedup\w*|pop_if)$"
FILES_MUTATORS_OK = r"Vec::<T, A>::(push|remove)$|ops::IndexMut<I>>::index_mut$|slice::<impl \[T\]>::(first_mut|last_mut|get_mut|iter_mut)$|ops::DerefMut>?::deref_mut$"
REORDER = r"::(reverse|sort|sort_by|sort_by_key|sort_unstable\w*|swap|rev|pop|swap_remove|insert|rotate_left|rotate_right|select_nth\w*)$"


def sync_receiver(g, n):
    return event_args(g, n)[0]


def _is_first(e):
    """files.first() / files.first_mut() (unwrapped): element 0"""
    return isinstance(e, tuple) and e and e[0] == "okval" and call_is(e[1], r"slice::<impl \[T\]>::(first|first_mut)$|Vec::<T, A>::(first|first_mut)$") \
        and FILES(call_arg(e[1], 0))


def is_sync_of_index(g, n, k=None):
    r = sync_receiver(g, n)
    if is_field(r, "f") and _is_first(r[1]) and (k is None or k == 0):
        return True
    return is_field(r, "f") and is_index(r[1], FILES, k)


def files_empty_fact(g, cn, v):
    """learned: FlushWorker.files is empty - `files.is_empty()` true, or `files.first()/first_mut()/last()/last_mut()/get(0)` gave None"""
    if cn is None:
        return False
    t = g.term(cn)
    a = event_args(g, cn)
    if not a or not FILES(a[0]):
        return False
    if cmatch(t, r"Vec::<T, A>::is_empty$|slice::<impl \[T\]>::is_empty$") and v == "true":
        return True
    if cmatch(t, r"(slice::<impl \[T\]>|Vec::<T, A>)::(first|first_mut|last|last_mut|split_first|split_last|split_first_mut|split_last_mut)$") and v == "None":
        return True
    return False


def is_sync_of_last(g, n):
    r = sync_receiver(g, n)
    return is_field(r, "f") and is_last(r[1], FILES)


def len_le1_fact(g, origin, v):
    """does learning (origin, v) establish len(files) <= 1 ?"""
    e = origin_stmt_expr(g, origin)
    if not e or e[0] != "binop":
        return False
    op, a, b = e[1], e[2], e[3]

    def is_len(x):
        if call_is(x, r"Vec::<T, A>::len$|slice::<impl \[T\]>::len$") and FILES(call_arg(x, 0)):
            return True
        # the length test of a slice pattern (`while let [oldest, _, ..] = files.as_slice()`)
        return isinstance(x, tuple) and len(x) == 3 and x[0] == "unop" and x[1] in ("PtrMetadata", "Len") and FILES(x[2])
    if is_len(a) and is_const(b):
        c = int(b[1])
        table = {("Gt", 1, "false"), ("Ge", 2, "false"), ("Le", 1, "true"), ("Lt", 2, "true"), ("Eq", 1, "true"),
                 ("Eq", 0, "true"), ("Ne", 1, "false"), ("Le", 0, "true"), ("Lt", 1, "true")}
        return (op, c, v) in table
    if is_len(b) and is_const(a):
        c = int(a[1])
        table = {("Lt", 1, "false"), ("Le", 2, "false"), ("Ge", 1, "true"), ("Gt", 2, "true"), ("Eq", 1, "true")}
        return (op, c, v) in table
    return False


def len_gt1_contradiction(g, origin, v, le1):
    """len(files) <= 1 is known and the same length test now answers the other way with no mutation in between: infeasible"""
    if not le1 or v not in ("true", "false"):
        return False
    return len_le1_fact(g, origin, "false" if v == "true" else "true")


def any_sync_closure(ctx, g, n):
    """`batch.iter().any(|w| w.sync)`: the closure's result is field `sync` of its argument."""
    t = g.term(n)
    if not cmatch(t, r"Iterator::any$"):
        return False
    for sub in g.closure_insts.get(n, []):
        e = g.prov_local(sub, 0)
        if is_field(e, "sync"):
            return True
    return False


def exists_sync_flag(ctx, g, origin):
    """the learned fact is about a bool local that is a hand-written `batch.iter().any(|w| w.sync)`:
        let mut flag = false;  for w in <batch> { if w.sync { flag = true; [break] } }
    i.e. its only definitions are the constants false and true, and the `true` store is entered only through the true-edge of a switch
    on the `sync` field of an element the loop took from the batch; the batch vector is non-empty because a push onto it lies on every
    path from its creation to the loop."""
    if not (isinstance(origin, tuple) and origin and origin[0] == "place"):
        return False
    slot = origin[1]
    if not (isinstance(slot, tuple) and len(slot) == 3 and slot[2] == ()):
        return False
    memo = getattr(g, "_esf_memo", None)
    if memo is None:
        memo = g._esf_memo = {}
    key = (slot[0], slot[1])
    if key in memo:
        return memo[key]
    memo[key] = False
    inst = g.insts[slot[0]]
    l = slot[1]
    if inst.body["locals"][l]["ty"] != "bool":
        return False
    defs = g.prog.defs(inst.key).get(l, [])
    if len(defs) == 1 and defs[0][0] == "s":
        # `if flag` switches on a temporary copy of the flag
        st0 = inst.body["blocks"][defs[0][1]]["stmts"][defs[0][2]]
        rv0 = st0["rv"]
        if st0["k"] == "assign" and not st0["p"]["proj"] and rv0["k"] == "use" and rv0["a"].get("k") in ("copy", "move") \
                and not rv0["a"]["p"]["proj"]:
            r = exists_sync_flag(ctx, g, ("place", (slot[0], rv0["a"]["p"]["l"], ()), origin[2] if len(origin) > 2 else None))
            memo[key] = r
            return r
    consts = {}
    for d in defs:
        if d[0] != "s":
            return False
        st = inst.body["blocks"][d[1]]["stmts"][d[2]]
        rv = st["rv"]
        if st["k"] != "assign" or st["p"]["proj"] or rv["k"] != "use" or rv["a"].get("k") != "const" or rv["a"].get("ty") != "bool":
            return False
        consts.setdefault(rv["a"].get("int"), []).append(d[1])
    if set(consts) != {"0", "1"} or len(consts["1"]) != 1:
        return False
    bt = (inst.id, consts["1"][0])
    # walk back over straight-line predecessors to the switch that guards the store
    cur, hops, guard = bt, 0, None
    while hops < 6:
        ps = [(p_, lab) for p_, lab in g.pred[cur] if p_[0] == inst.id]
        if len(ps) != 1:
            break
        p_, lab = ps[0]
        if g.term(p_)["k"] == "switch":
            guard = (p_, lab)
            break
        cur = p_
        hops += 1
    if guard is None:
        return False
    sw, lab = guard
    t = g.term(sw)
    if t.get("dty") != "bool" or not (lab and lab[0] == "sw" and lab[1] != "0"):
        return False
    d = t["discr"]
    if d.get("k") not in ("copy", "move"):
        return False
    e = strip_ids(g.prov_operand(inst, d))
    if not is_field(e, "sync"):
        return False
    nxt = [x for x in [e] if contains(x, lambda y: call_is(y, r"iter::Iterator>?::next$"))]
    if not nxt:
        return False
    # the iterated vector, and a push onto it on every path from its creation to the loop
    vec = None

    def find(y):
        nonlocal vec
        if call_is(y, r"iter::Iterator>?::next$") and vec is None:
            vec = call_arg(y, 0)
        return False
    contains(e, find)
    if not (isinstance(vec, tuple) and vec and vec[0] == "call" and re.search(r"Vec::<T(, A)?>::(with_capacity|new)$", vec[1])):
        return False
    create = [n for n in g.call_nodes(r"Vec::<T(, A)?>::(with_capacity|new)$") if strip_ids(g.prov_call(g.inst(n), n[1])) == vec]
    pushes = {n for n in g.call_nodes(r"Vec::<T, A>::push$") if strip_ids(event_args(g, n)[0]) == vec}
    loops = [n for n in g.call_nodes(r"iter::Iterator>?::next$") if strip_ids(event_args(g, n)[0]) == vec]
    if len(create) != 1 or not pushes or not loops:
        return False
    seen, work = {create[0]}, [create[0]]
    while work:
        x = work.pop()
        for m, _lab in g.succ[x]:
            if m in pushes or m in seen:
                continue
            seen.add(m)
            work.append(m)
    if any(n in seen for n in loops):
        return False          # the loop can be reached without a push: the batch may be empty
    memo[key] = True
    return True


def flag_switches(ctx, g):
    """switch nodes whose discriminant is (a copy of) an exists-sync flag -> slot of the switched local"""
    memo = getattr(g, "_fsw_memo", None)
    if memo is not None:
        return memo
    memo = {}
    for n in g.nodes:
        t = g.term(n)
        if t["k"] == "switch" and t.get("dty") == "bool" and t["discr"].get("k") in ("copy", "move") and not t["discr"]["p"]["proj"]:
            slot = (n[0], t["discr"]["p"]["l"], ())
            if exists_sync_flag(ctx, g, ("place", slot, n)):
                memo[n] = slot
    g._fsw_memo = memo
    return memo


def no_sync_branch_dead(ctx, g, P, pi):
    """the product is about to leave an `if <exists-sync flag>` test with the flag known false: impossible when every request is
    built with sync = true and the batch is non-empty (see exists_sync_flag)"""
    n = P.gnode(pi)
    fs = flag_switches(ctx, g)
    if n not in fs:
        return False
    tg = P.tags_after_block(pi).get(fs[n])
    return bool(tg) and tg[0] == "false"


def no_sync_requested(ctx, g, origin, v):
    """the learned fact says `no request of the batch asked for a sync` (dead when every request is built with sync = true)"""
    cn = origin_call(origin)
    if cn is not None and any_sync_closure(ctx, g, cn) and v == "false":
        return True
    if v == "false" and exists_sync_flag(ctx, g, origin):
        return True
    # `batch.iter().any(|w| w.sync).then(|| sync..)` / `.then_some(..)` came out None: the same "nobody asked" branch
    if cn is not None and v == "None" and cmatch(g.term(cn), r"bool(::<impl bool>)?::(then|then_some)$"):
        a = event_args(g, cn)
        c0 = a[0] if a else None
        if isinstance(c0, tuple) and len(c0) > 3 and c0[0] == "call" and any_sync_closure(ctx, g, c0[3]):
            return True
    return False


def r04_5(ctx, rep):
    aggs = ctx.all_aggregates(r"flush_request::WriteRequest$")
    rep.floor("R04.5", "WriteRequest{..} constructions", len(aggs), 1)
    all_true = True
    for b, bi, si, s in aggs:
        rv = s["rv"]
        idx = rv["fnames"].index("sync") if "sync" in rv["fnames"] else -1
        o = rv["fields"][idx] if idx >= 0 else None
        where = "%s:%d" % (rel_(s["file"]), s["line"])
        if o is not None and o["k"] == "const" and o.get("int") == "1":
            rep.ok("R04.5", "WriteRequest in %s" % short_key(b["key"]), "sync = const true", where=where, nontrivial=False)
        else:
            all_true = False
            rep.violation("R04.5", "%s|sync-not-const-true" % short_key(b["key"]),
                          "WriteRequest in %s" % short_key(b["key"]),
                          "a write request is built with `sync` not the constant true: its callback may be acknowledged "
                          "through the no-sync branch", where=where)
    return all_true


def rel_(f):
    return ("src/" + f.split("/src/", 1)[1]) if "/src/" in f else f


def run(ctx, rep):
    rep.rule("R04.1", "every Callback::send of a non-Err value in the worker is preceded, since the last write_all/AppendFile push, "
                      "by the Ok edge of a sync of the newest file with no other file left in FlushWorker.files")
    rep.rule("R04.2", "the batch write loop writes every request's data (only is_empty data is skipped) before the sync region")
    rep.rule("R04.3", "every removal from FlushWorker.files is preceded by the Ok edge of a sync of that same element")
    rep.rule("R04.4", "per batch element with callback=Some exactly one Callback::send on every path; send consumes self; no Clone bound")
    rep.rule("R04.5", "every WriteRequest is built with sync = const true")
    rep.rule("R04.6", "the batch is only pushed in channel order and consumed forward")
    rep.rule("R04.7", "flush hands the whole pending buffer plus the caller's callback to the worker on every Ok path")
    rep.rule("R04.8", "worker writes go to files.last(); files is only pushed (AppendFile payload) / index-assigned / removed per R04.3")

    wk, spawner, _ = ctx.worker_entry()
    g = ctx.graph(wk)
    P = ctx.product(wk)
    ENT = "worker"

    sync_nodes = g.call_nodes(SYNC_RX)
    write_nodes = [n for n in g.call_nodes(WRITE_RX)]
    send_nodes = g.call_nodes(r"callback::Callback::send$")
    rep.floor("R04.1", "File::sync_data/sync_all events in worker", len(sync_nodes), 1)
    rep.floor("R04.1", "Callback::send events in worker", len(send_nodes), 1)
    rep.floor("R04.2", "write events in worker", len(write_nodes), 1)

    sync_true = r04_5(ctx, rep)

    # classify sync receivers (idiom table)
    for n in sync_nodes:
        r = sync_receiver(g, n)
        if is_sync_of_index(g, n) or is_sync_of_last(g, n):
            rep.ok("R04.1", "sync receiver %s" % expr_s(strip_ids(r)), "recognised idiom", where=g.where(n), nontrivial=False)
        elif has_field(r, "files"):
            # e.g. today's `files.remove(0).f.sync_data()` : never counts as syncing a listed file
            rep.ok("R04.1", "sync receiver %s" % expr_s(strip_ids(r)),
                   "not an element still listed in files: gives no credit", where=g.where(n), nontrivial=False)
        else:
            rep.unresolved("R04.1", "sync-receiver:%s" % expr_s(strip_ids(r)),
                           "sync on a receiver the idiom table does not know", where=g.where(n))

    files_push = [n for n in g.call_nodes(r"Vec::<T, A>::push$") if FILES(event_args(g, n)[0])]
    files_mut_any = [n for n in g.call_nodes(None)
                     if event_args(g, n) and FILES(event_args(g, n)[0]) and
                     g.inst(n).body["locals"][g.term(n)["args"][0]["p"]["l"]]["ty"].startswith("&mut ")
                     # advancing a shared (read-only) iterator over the list does not mutate the list
                     and not re.match(r"&mut (std|core)::(slice::Iter<|iter::\w+<(std|core)::slice::Iter<)",
                                      g.inst(n).body["locals"][g.term(n)["args"][0]["p"]["l"]]["ty"])
                     if g.term(n)["args"][0]["k"] in ("copy", "move")]
    sync_set = set(sync_nodes)
    write_set = set(write_nodes)
    push_set = set(files_push)
    mut_set = set(files_mut_any)
    send_set = set(send_nodes)

    # ---------------- R04.1 ---------------------------------------------------------
    def step1(ms, pi, qi, learn):
        synced, le1 = ms
        n = P.gnode(pi)
        if sync_true and no_sync_branch_dead(ctx, g, P, pi):
            return None
        if n in write_set or n in push_set:
            synced = False
        if n in mut_set and not cmatch(g.term(n), r"IndexMut<I>>::index_mut$|slice::<impl \[T\]>::(first_mut|last_mut|get_mut|iter_mut)$|ops::DerefMut>?::deref_mut$|Vec::<T, A>::(as_mut_slice|iter_mut)$"):
            le1 = False
        for origin, v in norm_learn(learn):
            cn = origin_call(origin)
            if sync_true and no_sync_requested(ctx, g, origin, v):
                return None      # dead by R04.5: every request has sync = true
            if len_gt1_contradiction(g, origin, v, le1):
                return None
            if len_le1_fact(g, origin, v):
                le1 = True
            if files_empty_fact(g, cn, v):
                le1, synced = True, True      # no file is listed at all: nothing is unsynced
            if cn in sync_set and v in OKV:
                if is_sync_of_last(g, cn) or (is_sync_of_index(g, cn, 0) and le1):
                    synced = True
        return (synced, le1)

    seen = run_monitor(P, (False, False), step1)
    for n in send_nodes:
        t = g.term(n)
        bad = None
        ok_arg = False
        for (pi, ms) in seen:
            if P.gnode(pi) != n:
                continue
            tag = P.operand_tag(pi, t["args"][1])
            if tag and tag[0] == "Err":
                continue
            ok_arg = True
            if not ms[0]:
                bad = (pi, ms)
                break
        site = "Callback::send(%s)" % expr_s(strip_ids(event_args(g, n)[1]))[:60]
        if bad:
            rep.violation("R04.1", "%s|send-not-after-sync" % ENT, site,
                          "a callback can be sent a non-Err result on a path with no successful sync of the newest file "
                          "since the last write/AppendFile", where=g.where(n),
                          path=describe_path(P, [k[0] for k in path_to(seen, bad)]))
        else:
            rep.ok("R04.1", site, "all %s arrivals are after a successful sync region" % ("non-Err" if ok_arg else "(Err-only)"),
                   where=g.where(n))

    # ---------------- R04.3 ---------------------------------------------------------
    removers = [n for n in g.call_nodes(FILES_REMOVERS) if FILES(event_args(g, n)[0])]
    # whole-field assignments to `files`
    for n in g.nodes:
        for si, s in enumerate(g.stmts(n)):
            if s["k"] == "assign" and s["p"]["proj"]:
                pe = g.prov_place(g.inst(n), s["p"])
                if FILES(pe) and "worker" in g.inst(n).key.lower() or (FILES(pe) and g.inst(n).depth > 0):
                    if not (s["rv"]["k"] == "agg"):
                        rep.unresolved("R04.3", "files-assigned", "FlushWorker.files is overwritten by an assignment",
                                       where=g.where(n, si))

    def step3(ms, pi, qi, learn):
        n = P.gnode(pi)
        if n in mut_set and not cmatch(g.term(n), r"IndexMut<I>>::index_mut$|slice::<impl \[T\]>::(first_mut|last_mut|get_mut|iter_mut)$|ops::DerefMut>?::deref_mut$|Vec::<T, A>::(as_mut_slice|iter_mut)$"):
            ms = frozenset()
        for origin, v in norm_learn(learn):
            cn = origin_call(origin)
            if cn in sync_set and v in OKV and is_sync_of_index(g, cn):
                r = sync_receiver(g, cn)[1]
                if _is_first(r):
                    k = ("const", "0")
                else:
                    k = call_arg(r, 1) if r[0] in ("call", "ret") else (r[2] if len(r) > 2 else None)
                if k is not None and is_const(k):
                    ms = ms | {str(k[1])}
        return ms

    seen3 = run_monitor(P, frozenset(), step3)
    for n in removers:
        args = event_args(g, n)
        nm = cpath(g.term(n)).split("::")[-1]
        site = "Vec::%s(files%s)" % (nm, "".join(", " + expr_s(strip_ids(a)) for a in args[1:]))
        bad = None
        if nm == "remove" and len(args) > 1 and is_const(args[1]):
            k = str(args[1][1])
            for (pi, ms) in seen3:
                if P.gnode(pi) == n and k not in ms:
                    bad = (pi, ms)
                    break
            if bad:
                rep.violation("R04.3", "%s|%s-before-sync" % (ENT, site), site,
                              "an entry is removed from FlushWorker.files on a path where it has not been successfully "
                              "synced: if its later sync fails the file is forgotten and a later flush acknowledges Ok",
                              where=g.where(n), path=describe_path(P, [k_[0] for k_ in path_to(seen3, bad)]))
            else:
                rep.ok("R04.3", site, "dominated by the Ok edge of sync on the same element", where=g.where(n))
        else:
            rep.violation("R04.3", "%s|%s-unrecognised-removal" % (ENT, site), site,
                          "files are dropped from FlushWorker.files by an operation that is not preceded by a sync of the dropped "
                          "elements", where=g.where(n))
    if not removers:
        # a list that is never shortened must be synced element by element (for-loop idiom), else only index 0 is synced
        idx_syncs = [n for n in sync_nodes if is_sync_of_index(g, n)]
        if idx_syncs and files_push:
            rep.violation("R04.3", "%s|files-never-shortened-but-indexed-sync" % ENT, "FlushWorker.files",
                          "files are appended but never removed while the sync addresses a fixed index", where=g.where(idx_syncs[0]))

    # ---------------- loops over the batch ----------------------------------------------
    next_nodes = g.call_nodes(r"iter::Iterator>?::next$")

    def loop_elem(n):
        return ("okval", ("call",) + tuple(strip_ids(("call", cpath(g.term(n)), tuple(event_args(g, n))))[1:]))

    def body_region(n_next):
        """pnodes of loop bodies of `next` node: start after learn(next -> Some)"""
        starts = []
        for pi in P.pnodes_of([n_next]):
            pass
        return starts

    # the for-loop around a set of events: the smallest natural loop containing them, and its `next` event
    def loops_containing(targets):
        out = []
        for t_ in targets:
            sl_ = smallest_loop(g, t_)
            while sl_ is not None:
                h, body = sl_
                nxt = [x for x in next_nodes if x in body and smallest_loop(g, x)[1] is body]
                if nxt:
                    out.append((nxt[0], body))
                    break
                # climb to the next larger loop
                bigger = [(h2, b2) for h2, b2 in natural_loops(g) if body < b2]
                sl_ = bigger[0] if bigger else None
        return out

    # partial-write APIs never count as "the element was written": only write_all completes a short write
    PARTIAL = r"io::Write::(write|write_vectored)$|FileExt>?::write_at$"
    for n in write_nodes:
        if cmatch(g.term(n), PARTIAL):
            rep.violation("R04.2", "%s|partial-write-api:%s" % (ENT, cpath(g.term(n)).split("::")[-1]), cpath(g.term(n)),
                          "the worker writes with an API that may write fewer bytes than given without an error (short write, IOV_MAX): "
                          "the journal gets a hole while offsets, returned segments and the acknowledgement assume a complete write",
                          where=g.where(n))
    write_nodes = [n for n in write_nodes if not cmatch(g.term(n), PARTIAL)]
    FWD_ADAPTORS = r"iter::Iterator>?::(for_each|try_for_each)$"

    def adaptor_loops(targets):
        """a forward adaptor that runs a closure once per element is a loop: head = the adaptor call, body = the closure's instance (with
        everything inlined into it), element = the closure's parameter"""
        out = []
        for t_ in targets:
            i = g.inst(t_)
            chain_ = []
            while i is not None:
                chain_.append(i)
                i = i.parent
            for ci in chain_:
                if ci.parent is None or ci.call_bb is None:
                    continue
                cn = (ci.parent.id, ci.call_bb)
                tt = g.term(cn)
                if tt["k"] == "call" and cn not in g.callee_inst and cmatch(tt, FWD_ADAPTORS) and ci in g.closure_insts.get(cn, []):
                    ids = set()
                    stack = [ci]
                    while stack:
                        x = stack.pop()
                        ids.add(x.id)
                        stack.extend(y for y in g.insts if y.parent is x)
                    body = {n for n in g.nodes if n[0] in ids}
                    out.append((cn, body, ci))
                    break
        return out

    wloops = loops_containing(write_nodes)
    sloops = loops_containing(send_nodes)
    w_ad = adaptor_loops(write_nodes) if not wloops else []
    s_ad = adaptor_loops(send_nodes) if not sloops else []
    wloops = wloops or [(cn, body) for cn, body, ci in w_ad]
    sloops = sloops or [(cn, body) for cn, body, ci in s_ad]
    ad_inst = {cn: ci for cn, body, ci in (w_ad + s_ad)}
    if not rep.expect("R04.2", "write-loop", len(wloops) >= 1, "no loop around the worker's write_all found"):
        return
    if not rep.expect("R04.4", "callback-loop", len(sloops) >= 1, "no loop around Callback::send found"):
        return
    # innermost loops
    wl = min(wloops, key=lambda x: len(x[1]))
    sl = min(sloops, key=lambda x: len(x[1]))
    batch_w = strip_ids(canon_vars(g, event_args(g, wl[0])[0]))
    batch_s = strip_ids(canon_vars(g, event_args(g, sl[0])[0]))

    def skips_only_empty_data(e):
        """`X.iter().filter(|w| !w.data.is_empty())`: the adaptor drops exactly the elements the plain loop would skip"""
        if not (isinstance(e, tuple) and e and e[0] == "call" and re.search(r"iter::Iterator>?::filter$", e[1]) and len(e[2]) == 2):
            return None
        cl = e[2][1]
        if not (isinstance(cl, tuple) and cl and cl[0] == "closure" and cl[1] in ctx.prog.bodies):
            return None
        b = ctx.prog.bodies[cl[1]]
        calls = [blk["term"] for blk in b["blocks"] if blk["term"]["k"] == "call"]
        if len(calls) != 1 or not re.search(r"Vec::<T, A>::is_empty$", calls[0]["callee"]["path"]):
            return None
        nots = [st for blk in b["blocks"] for st in blk["stmts"] if st["k"] == "assign" and st["rv"]["k"] == "unop" and st["rv"]["op"] == "Not"]
        gcl = ctx.graph(cl[1])
        arg = [strip_ids(x) for x in event_args(gcl, next(n for n in gcl.nodes if gcl.term(n)["k"] == "call"))]
        if len(nots) == 1 and arg and is_field(arg[0], "data"):
            return e[2][0]
        return None
    unf = skips_only_empty_data(batch_w)
    if unf is not None:
        rep.ok("R04.2", "write loop adaptor", "filter(|w| !w.data.is_empty()) over the batch: skips exactly the elements without bytes",
               where=g.where(wl[0]), nontrivial=False)
        batch_w = unf
    if batch_w != batch_s:
        rep.violation("R04.2", "%s|write-loop-and-callback-loop-differ" % ENT, "batch",
                      "the write loop iterates %s but the callback loop iterates %s" % (expr_s(batch_w), expr_s(batch_s)),
                      where=g.where(wl[0]))
    else:
        rep.ok("R04.2", "batch identity", "write loop and callback loop iterate the same vector %s" % expr_s(batch_w),
               where=g.where(wl[0]))
    # the loops iterate the vector itself (no skip/take/filter/rev adaptor survives provenance erasure)
    for nm, (nn, _b), bx in (("write", wl, batch_w), ("callback", sl, batch_s)):
        if bx[0] == "call" and re.search(r"Vec::<T(, A)?>::(with_capacity|new)$|vec::from_elem", bx[1]) or bx[0] == "var" \
                or (bx[0] == "field" and isinstance(bx[1], tuple) and bx[1] and bx[1][0] == "var"):     # a field of a local bundle of loop state
            rep.ok("R04.6", "%s loop iterates the whole batch" % nm, expr_s(bx), where=g.where(nn))
        else:
            rep.violation("R04.6", "%s|%s-loop-iterates-%s" % (ENT, nm, expr_s(bx)), "%s loop" % nm,
                          "the %s loop does not iterate the batch vector itself but %s" % (nm, expr_s(bx)), where=g.where(nn))

    # R04.2: every path through the write loop body writes the element's data (or it is empty)
    def elem_of(nn):
        return ("okval", strip_ids(("call", cpath(g.term(nn)), tuple(event_args(g, nn)))))

    def is_elem_of(e, nn):
        """is e the element of the loop headed by nn: okval(next(<that iterator>)), or the parameter of the closure an adaptor runs"""
        if nn in ad_inst:
            return isinstance(e, tuple) and len(e) == 3 and e[0] == "cl_arg" and e[1] == ad_inst[nn].id
        return isinstance(e, tuple) and e and e[0] == "okval" and call_is(e[1], r"Iterator>?::next$") \
            and strip_ids(call_arg(e[1], 0)) == strip_ids(event_args(g, nn)[0])

    def is_elem_data(e, nn):
        e = strip_ids(e)
        return is_field(e, "data") and is_elem_of(e[1], nn)

    def body_starts(nn):
        if nn in ad_inst:
            return P.pnodes_of([(ad_inst[nn].id, 0)])
        return learned_targets(P, lambda o, v: origin_call(o) == nn and v in OKV)

    def at_head(n, nn, body):
        """has the walk left the body of the current element (back at the head / re-entering the closure / out of the loop)?"""
        if nn in ad_inst:
            return n not in body
        return n == nn

    nn = wl[0]
    starts = body_starts(nn)
    rep.expect("R04.2", "write-loop-body-entry", bool(starts), "cannot find the Some edge of the write loop's next()")
    wbody = wl[1]
    wentry = (ad_inst[nn].id, 0) if nn in ad_inst else None

    def step2(ms, pi, qi, learn):
        n = P.gnode(pi)
        if ms != "S" and (at_head(n, nn, wbody) or n == wentry):
            return None          # one element's walk ends at the head / when the closure is entered again / outside the loop
        if ms == "S":
            ms = False
        if n in write_set:
            a = event_args(g, n)
            if len(a) > 1 and is_elem_data(a[1], nn):
                ms = True
        for origin, v in norm_learn(learn):
            cn = origin_call(origin)
            if cn is not None and cmatch(g.term(cn), r"Vec::<T, A>::is_empty$") and v == "true" \
                    and is_elem_data(event_args(g, cn)[0], nn):
                ms = True
        return ms

    seen2 = run_monitor(P, "S", step2, starts=starts)
    if nn in ad_inst:
        bad = [(pi, ms) for (pi, ms) in seen2 if ms is False and (P.gnode(pi) == wentry or P.gnode(pi) not in wbody)]
    else:
        bad = [(pi, ms) for (pi, ms) in seen2 if P.gnode(pi) == nn and ms is False]
    if bad:
        rep.violation("R04.2", "%s|batch-element-not-written" % ENT, "write loop",
                      "a path through the write loop reaches the next element without writing this element's data "
                      "(and the data is not known empty)", where=g.where(nn),
                      path=describe_path(P, [k[0] for k in path_to(seen2, bad[0])]))
    else:
        rep.ok("R04.2", "write loop body", "every path writes element.data or has learned data.is_empty()", where=g.where(nn))

    # R04.8 write receivers
    for n in write_nodes:
        r = event_args(g, n)[0]
        if is_field(r, "f") and is_last(r[1], FILES):
            rep.ok("R04.8", "write receiver", expr_s(strip_ids(r)), where=g.where(n))
        else:
            rep.violation("R04.8", "%s|write-receiver:%s" % (ENT, expr_s(strip_ids(r))), "write receiver",
                          "the worker writes to %s, not to files.last()" % expr_s(strip_ids(r)), where=g.where(n))
    for n in files_mut_any:
        t = g.term(n)
        if cmatch(t, FILES_MUTATORS_OK):
            if cmatch(t, r"::push$"):
                v = event_args(g, n)[1]
                if contains(v, lambda x: isinstance(x, tuple) and len(x) == 3 and x[0] == "as" and x[2] == "AppendFile"):
                    rep.ok("R04.8", "files.push(AppendFile payload)", "", where=g.where(n), nontrivial=False)
                else:
                    rep.violation("R04.8", "%s|files-push:%s" % (ENT, expr_s(strip_ids(v))[:80]), "files.push",
                                  "a file entry that is not an AppendFile payload is pushed", where=g.where(n))
            continue
        if cmatch(t, FILES_REMOVERS):
            continue
        rep.unresolved("R04.8", "files-mutator:%s" % cpath(t), "FlushWorker.files is mutated by an operation outside the idiom table",
                       where=g.where(n))

    # ---------------- R04.4 -------------------------------------------------------------
    nn4 = sl[0]
    starts4 = body_starts(nn4)
    rep.expect("R04.4", "callback-loop-body-entry", bool(starts4), "cannot find the Some edge of the callback loop's next()")
    sbody = sl[1]
    sentry = (ad_inst[nn4].id, 0) if nn4 in ad_inst else None

    def is_elem_cb(e):
        e = strip_ids(e)
        if not is_field(e, "callback"):
            return False
        if nn4 in ad_inst:
            return is_elem_of(e[1], nn4)
        return e[1][0] == "okval" and call_is(e[1][1], r"Iterator>?::next$")

    def step4(ms, pi, qi, learn):
        need, sent, fresh = ms
        n = P.gnode(pi)
        if not fresh and (at_head(n, nn4, sbody) or n == sentry):
            return None
        fresh = False
        ms = (need, sent)
        ms = _step4(ms, pi, qi, learn)
        return None if ms is None else (ms[0], ms[1], fresh)

    def _step4(ms, pi, qi, learn):
        need, sent = ms
        n = P.gnode(pi)
        if False:
            return None
        if n in send_set:
            sent = min(sent + 1, 2)
        for origin, v in norm_learn(learn):
            pe = origin_place_expr(g, origin)
            if pe is not None and is_elem_cb(pe) and v == "Some":
                need = True
        return (need, sent)

    seen4 = run_monitor(P, (False, 0, True), step4, starts=starts4)
    # ends: back at loop head, or any node outside the body (loop exit by break/return); for an adaptor: the closure is entered again
    bad4 = None
    for (pi, ms) in seen4:
        n = P.gnode(pi)
        if ms[2]:
            continue
        at_end = (n == nn4) or (n not in sl[1] and n != nn4) or (sentry is not None and n == sentry)
        if at_end and ((ms[0] and ms[1] != 1) or ms[1] > 1):
            bad4 = (pi, ms)
            break
    if bad4:
        rep.violation("R04.4", "%s|callback-not-exactly-once" % ENT, "callback loop",
                      "a batch element with callback=Some leaves the loop body with %d sends" % bad4[1][1],
                      where=g.where(nn4), path=describe_path(P, [k[0] for k in path_to(seen4, bad4)]))
    else:
        rep.ok("R04.4", "callback loop body", "callback=Some => exactly one send on every path", where=g.where(nn4))
    tr = ctx.facts.traits.get("raft_log::wal::callback::Callback")
    if rep.expect("R04.4", "trait Callback", tr is not None):
        sigs = [i.get("sig", "") for i in tr["items"] if i["name"] == "send"]
        if sigs and sig_takes_self_by_value(sigs[0]):
            rep.ok("R04.4", "Callback::send signature", sigs[0], nontrivial=False)
        else:
            rep.violation("R04.4", "Callback::send-not-by-value", "Callback::send",
                          "Callback::send no longer consumes the callback: it can be invoked twice (%s)" % sigs)
    ty = ctx.facts.traits.get("api::types::Types")
    if rep.expect("R04.4", "trait Types", ty is not None):
        b = [a for a in ty["assoc_bounds"] if a["name"] == "Callback"]
        if b and not any(re.search(r"\b(Clone|Copy)\b", x) for x in b[0]["bounds"]):
            rep.ok("R04.4", "Types::Callback bounds", "; ".join(b[0]["bounds"]), nontrivial=False)
        else:
            rep.violation("R04.4", "Types::Callback-clone-bound", "Types::Callback",
                          "Types::Callback is Clone/Copy: at-most-once is no longer enforced by move semantics")

    # ---------------- R04.6 -------------------------------------------------------------
    for n in g.call_nodes(REORDER):
        a = event_args(g, n)
        if a and (strip_ids(a[0]) == batch_s or contains(strip_ids(a[0]), lambda x: x == batch_s)):
            rep.violation("R04.6", "%s|reorder:%s" % (ENT, cpath(g.term(n)).split("::")[-1]), cpath(g.term(n)),
                          "the batch is reordered/shortened before callbacks are sent", where=g.where(n))
    pushes = [n for n in g.call_nodes(r"Vec::<T, A>::push$") if strip_ids(canon_vars(g, event_args(g, n)[0])) == batch_s]
    rep.floor("R04.6", "pushes into the batch", len(pushes), 2)
    for n in pushes:
        v = event_args(g, n)[1]
        ei = element_iterator(g, P, v)
        if contains(v, lambda x: call_is(x, r"mpsc::Receiver::<T>::(recv|try_iter|try_recv|iter|recv_timeout)$")) or \
                (ei is not None and contains(ei[0], lambda x: call_is(x, r"mpsc::Receiver::<T>::(try_iter|iter)$"))):
            rep.ok("R04.6", "batch.push source", expr_s(strip_ids(v))[:90], where=g.where(n))
        else:
            rep.violation("R04.6", "%s|batch-push-source" % ENT, "batch.push",
                          "a request not taken from the mpsc channel is pushed into the batch: %s" % expr_s(strip_ids(v))[:90],
                          where=g.where(n))

    # ---------------- R04.9 who may acknowledge ------------------------------------------
    rep.rule("R04.9", "Callback::send is invoked only by the flush worker (which alone knows whether the sync succeeded)")
    wsites = {(g.inst(n).key, n[1]) for n in send_nodes}
    for b, bi, t in ctx.all_calls(r"callback::Callback::send$"):
        if re.search(r" as raft_log::wal::callback::Callback>::send$", b["key"]):
            continue
        where = "%s:%d" % (rel_(t["file"]), t["line"])
        if (b["key"], bi) in wsites:
            rep.ok("R04.9", "Callback::send in %s" % short_key(b["key"]), "worker", where=where, nontrivial=False)
        else:
            rep.violation("R04.9", "%s|callback-sent-outside-worker" % short_key(b["key"]), "Callback::send",
                          "a flush callback is invoked outside the flush worker: the caller thread cannot know whether earlier data was "
                          "successfully synced", where=where)

    # ---------------- R04.10 a failed write is fatal for the worker ---------------------
    rep.rule("R04.10", "after the Err edge of a write to a chunk file the worker sends no non-Err result to any callback any more (today: "
                       "the error ends the worker thread): the file may hold a partial record and its cursor is past it, so a later "
                       "'successful' flush would acknowledge bytes written behind a torn record")
    wset = set(write_nodes)
    wout = {n: call_outcome(P, n) for n in wset}

    def step10(ms, pi, qi, learn):
        for n, f in wout.items():
            if f(pi, qi, learn) == "err":
                ms = True
        return ms
    seen10 = run_monitor(P, False, step10)
    bad10 = None
    for (pi, ms) in seen10:
        n = P.gnode(pi)
        if ms and n in send_nodes:
            a = event_args(g, n)
            v = strip_ids(a[1]) if len(a) > 1 else None
            tg = P.operand_tag(pi, g.term(n)["args"][1]) if len(g.term(n).get("args", [])) > 1 else None
            if not ((tg and tg[0] == "Err") or (v and v[0] == "agg" and v[2] == "Err")):
                bad10 = (pi, ms)
                break
    if bad10:
        rep.violation("R04.10", "%s|ok-ack-after-failed-write" % ENT, "Callback::send after a failed write",
                      "the worker keeps serving after write_all failed: a later flush can be acknowledged Ok although earlier journalled bytes "
                      "never reached the file (and the acknowledged record sits behind a torn one, which recovery cuts off)",
                      where=g.where(P.gnode(bad10[0])), path=describe_path(P, [k_[0] for k_ in path_to(seen10, bad10)]))
    else:
        rep.ok("R04.10", "failed write", "no callback is sent a non-Err value on any path after the Err edge of a chunk-file write (%d write site(s))"
               % len(wset), where=g.where(sorted(wset)[0]) if wset else "")

    # ---------------- R04.7 (caller side) -----------------------------------------------
    r04_7(ctx, rep)


def _reaches(g, a, b, _memo={}):
    key = (id(g), b)
    m = _memo.get(key)
    if m is None:
        # backward reachability to b
        m = set()
        work = [b]
        while work:
            x = work.pop()
            for p, _ in g.pred[x]:
                if p not in m:
                    m.add(p)
                    work.append(p)
        _memo[key] = m
    return a in m


def write_request_of_send(g, n):
    """for a channel send event: the WorkerRequest aggregate sent, as (variant, fields dict) or None"""
    a = event_args(g, n)
    if len(a) < 2:
        return None
    v = a[1]
    found = []

    def walk(e):
        if isinstance(e, tuple) and e and e[0] == "agg" and re.search(r"flush_request::WorkerRequest$", str(e[1])):
            found.append(e)
            return
        if isinstance(e, tuple):
            for x in e:
                if isinstance(x, tuple):
                    walk(x)
    walk(v)
    if not found:
        # the request was built somewhere else (a local, a helper, `cond.then(|| request)`): look through to where it comes from
        def walk2(e, depth=0):
            if found or depth > 6 or not isinstance(e, tuple) or not e:
                return
            if e[0] == "agg" and re.search(r"flush_request::WorkerRequest$", str(e[1])):
                found.append(e)
                return
            if e[0] in ("okval", "var", "ret"):
                for x in value_sources(g, e):
                    if x != e:
                        walk2(x, depth + 1)
                return
            for x in e:
                if isinstance(x, tuple):
                    walk2(x, depth)
        walk2(v)
    return found[0] if found else None


def r04_7(ctx, rep):
    key = ctx.body_key(WRITER_RX % "flush")
    g = ctx.graph(key)
    P = ctx.product(key)
    sends = g.call_nodes(r"mpsc::SyncSender::<T>::send$|mpsc::Sender::<T>::send$")
    rep.floor("R04.7", "channel sends in Op(flush)", len(sends), 1)
    good = set()
    for n in sends:
        wr = write_request_of_send(g, n)
        if wr is None or wr[2] != "Write":
            continue
        inner = wr[3][0]
        if not (inner[0] == "agg" and re.search(r"WriteRequest$", inner[1])):
            continue
        names = ["upto_offset", "data", "sync", "callback"]
        adt = ctx.facts.adts.get("raft_log::wal::flush_request::WriteRequest")
        if adt:
            names = [f["name"] for f in adt["variants"][0]["fields"]]
        f = dict(zip(names, inner[3]))
        data, cb = strip_ids(f.get("data")), strip_ids(f.get("callback"))
        data_ok = call_is(data, r"mem::take$") and is_field(call_arg(data, 0), "pending_data") and \
            is_field(call_arg(data, 0)[1], "open")
        cb_ok = cb == ("arg", 2)
        if data_ok and cb_ok:
            good.add(n)
            rep.ok("R04.7", "flush Write request", "data = mem::take(open.pending_data), callback = caller's callback",
                   where=g.where(n))
        else:
            rep.violation("R04.7", "flush|write-request-shape", "flush Write request",
                          "data=%s callback=%s (expected the whole pending buffer and the caller's callback)"
                          % (expr_s(data)[:80], expr_s(cb)[:60]), where=g.where(n))
    if not rep.expect("R04.7", "flush-write-send", bool(good), "Op(flush) sends no Write request carrying pending_data + callback"):
        return

    def step(ms, pi, qi, learn):
        for origin, v in norm_learn(learn):
            if origin_call(origin) in good and v in OKV:
                ms = True
        return ms
    seen = run_monitor(P, False, step)
    bad = None
    for (pi, ms) in seen:
        if P.gnode(pi) in g.exits:
            tag = P.tags_after_block(pi).get((0, 0, ()))
            if tag and tag[0] == "Err":
                continue
            if not ms:
                bad = (pi, ms)
                break
    if bad:
        rep.violation("R04.7", "flush|ok-return-without-handover", "Op(flush) Ok return",
                      "flush can return Ok without having handed the pending bytes and callback to the worker",
                      where=g.where(P.gnode(bad[0])), path=describe_path(P, [k[0] for k in path_to(seen, bad)]))
    else:
        rep.ok("R04.7", "Op(flush) Ok returns", "all cross the Ok edge of the Write hand-over", where=g.where(g.entry))
