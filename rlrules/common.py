"""Rule framework: analysis context, obligation report, evidence file, known findings."""
import json
import os
import re
import time

from engine import EGraph, Product, Program, Unresolved, cmatch, cpath
from facts import Facts

VERIF = os.path.dirname(os.path.dirname(os.path.abspath(__file__)))


class Ctx:
    def __init__(self, facts_path, info=None):
        self.facts = Facts(facts_path)
        self.prog = Program(self.facts)
        self.info = info or {}
        self._g = {}
        self._p = {}
        self.stats = {"entry_graphs": 0, "inlined_instances": 0, "graph_nodes": 0, "product_nodes": 0}

    # ---- entries ----------------------------------------------------------------------
    def graph(self, key, **kw):
        k = (key, tuple(sorted(kw.items())) if kw else ())
        g = self._g.get(k)
        if g is None:
            g = EGraph(self.prog, key, **kw)
            self._g[k] = g
            self.stats["entry_graphs"] += 1
            self.stats["inlined_instances"] += len(g.insts)
            self.stats["graph_nodes"] += len(g.nodes)
        return g

    def product(self, key):
        p = self._p.get(key)
        if p is None:
            p = Product(self.graph(key))
            self._p[key] = p
            self.stats["product_nodes"] += len(p.nodes)
        return p

    def body_key(self, rx, unique=True):
        ks = [k for k in self.prog.bodies if re.search(rx, k)]
        if unique:
            if len(ks) != 1:
                raise Unresolved("anchor %r matches %d bodies: %s" % (rx, len(ks), ks[:5]))
            return ks[0]
        return ks

    def write_entries(self):
        """entry keys of the public write operations (RaftLogWriter methods + update_state)"""
        ks = [k for k in self.prog.bodies if re.search(r"RaftLog<T> as api::raft_log_writer::RaftLogWriter<T>>::\w+$", k)]
        ks += [k for k in self.prog.bodies if re.search(r"RaftLog::<T>::update_state$", k)]
        return sorted(ks)

    def worker_entry(self):
        """the closure handed to thread::Builder::spawn (role discovery, no private names)."""
        found = []
        for b in self.facts.doc["bodies"]:
            for blk in b["blocks"]:
                t = blk["term"]
                if t["k"] == "call" and cmatch(t, r"thread::(Builder::)?spawn(_unchecked)?$"):
                    for g in t["callee"].get("gargs", []):
                        if "closure" in g:
                            found.append((g["closure"], b["key"], t))
        if len(found) != 1:
            raise Unresolved("expected exactly one thread spawn with a closure, found %d" % len(found))
        return found[0]

    def all_calls(self, rx, fn_items=True):
        """(body, bb index, terminator) of every call in any non-cleanup block matching rx."""
        out = []
        for b in self.facts.doc["bodies"]:
            if b["key"].startswith("testing::") or b["key"].startswith("<testing::"):
                continue
            for bi, blk in enumerate(b["blocks"]):
                if blk["cleanup"]:
                    continue
                t = blk["term"]
                if t["k"] == "call" and cmatch(t, rx):
                    out.append((b, bi, t))
                elif fn_items and t["k"] == "call":
                    # a function handed over as a value (`iter.try_for_each(fs::remove_file)`): the adaptor calls it right here
                    for a in t.get("args", []):
                        f = a.get("fn") if isinstance(a, dict) else None
                        if f and re.search(rx, f.get("rpath") or f.get("path") or ""):
                            out.append((b, bi, {"k": "call", "callee": f, "args": [], "file": t.get("file"), "line": t.get("line"), "as_value": True}))
        return out

    def all_aggregates(self, adt_rx, variant=None):
        out = []
        for b in self.facts.doc["bodies"]:
            if b["key"].startswith("testing::") or b["key"].startswith("<testing::"):
                continue
            for bi, blk in enumerate(b["blocks"]):
                if blk["cleanup"]:
                    continue
                for si, s in enumerate(blk["stmts"]):
                    if s["k"] == "assign" and s["rv"]["k"] == "agg" and s["rv"].get("ak") == "adt" \
                            and re.search(adt_rx, s["rv"]["adt"]) and (variant is None or s["rv"]["variant"] == variant):
                        out.append((b, bi, si, s))
        return out


def rel(f):
    if "/src/" in f:
        return "src/" + f.split("/src/", 1)[1]
    return f


class Report:
    def __init__(self, pid, tier):
        self.pid = pid
        self.tier = tier
        self.obs = []          # obligations
        self.t0 = time.time()
        self.notes = []
        self.rules = {}
        self.assumptions = []

    def rule(self, rid, text):
        self.rules[rid] = text

    def ok(self, rule, site, detail="", nontrivial=True, where=""):
        self.obs.append({"rule": rule, "site": site, "status": "ok", "detail": detail,
                         "nontrivial": nontrivial, "where": where})

    def violation(self, rule, key, site, detail, where="", path=None):
        self.obs.append({"rule": rule, "site": site, "status": "violation", "detail": detail,
                         "nontrivial": True, "where": where, "key": "%s|%s" % (rule, key), "path": path or []})

    def unresolved(self, rule, key, detail, where=""):
        self.obs.append({"rule": rule, "site": key, "status": "unresolved", "detail": "UNRESOLVED: " + detail,
                         "nontrivial": True, "where": where, "key": "%s|UNRESOLVED|%s" % (rule, key), "path": []})

    def floor(self, rule, what, found, floor):
        if found < floor:
            self.unresolved(rule, "floor:" + what, "%s: found %d instance(s), hand-counted floor is %d "
                            "(anchor lost or rule would pass vacuously)" % (what, found, floor))
        else:
            self.ok(rule, "floor:" + what, "%d instance(s) >= floor %d" % (found, floor), nontrivial=False)

    def expect(self, rule, what, cond, detail="", where=""):
        """a structural anchor the rule needs; missing => fail closed."""
        if not cond:
            self.unresolved(rule, what, detail or ("anchor not found: " + what), where)
        return cond


def load_known():
    p = os.path.join(VERIF, "known_findings.json")
    if not os.path.exists(p):
        return {"known": [], "fixed": []}
    with open(p) as f:
        return json.load(f)


def finish(rep, ctx, seed=0, extra=None, write=True):
    """prints VIOLATION / KNOWN-FINDING lines, writes evidence + report, returns exit code."""
    known = load_known()
    kmap = {(k["property"], k["key"]): k for k in known.get("known", [])}
    viol = [o for o in rep.obs if o["status"] in ("violation", "unresolved")]
    new, matched = [], []
    for o in viol:
        k = kmap.get((rep.pid, o["key"]))
        if k is not None and o["status"] == "violation":
            matched.append((o, k))
        else:
            new.append(o)
    os.makedirs(os.path.join(VERIF, "evidence"), exist_ok=True)
    os.makedirs(os.path.join(VERIF, "reports"), exist_ok=True)
    rpath = os.path.join(VERIF, "reports", "%s.txt" % rep.pid)
    with open(rpath if write else os.devnull, "w") as f:
        f.write("property %s tier %s\nsource hash %s\n\n" % (rep.pid, rep.tier, ctx.info.get("source_hash")))
        for o in rep.obs:
            if o["status"] == "ok":
                continue
            f.write("%s %s :: %s (%s) :: %s\n" % (o["status"].upper(), o["rule"], o["site"], o["where"], o["detail"]))
            f.write("   key: %s\n" % o.get("key"))
            for h in o.get("path", []):
                f.write("     via %s\n" % h)
        f.write("\n-- discharged obligations --\n")
        for o in rep.obs:
            if o["status"] == "ok":
                f.write("ok %s :: %s (%s) %s\n" % (o["rule"], o["site"], o["where"], o["detail"]))
    seen_keys = set()
    for o, k in matched:
        if o["key"] in seen_keys:
            continue
        seen_keys.add(o["key"])
        print("KNOWN-FINDING: property=%s %s [%s]" % (rep.pid, k["what_fails"], o["key"]))
    for o in new:
        print("%s %s %s :: %s (%s) :: %s" % (rep.pid, o["status"].upper(), o["rule"], o["site"], o["where"], o["detail"]))
        for h in o.get("path", [])[:30]:
            print("     via %s" % h)
        print("   key: %s" % o.get("key"))
    if new:
        print("VIOLATION property=%s replay=%s" % (rep.pid, rpath))

    n_ob = len(rep.obs)
    n_ok = sum(1 for o in rep.obs if o["status"] == "ok")
    distinct = len({(o["rule"], o["site"]) for o in rep.obs if o["nontrivial"]})
    samples = []
    for o in rep.obs:
        if o["nontrivial"] and len(samples) < 8:
            samples.append({"rule": o["rule"], "site": o["site"], "where": o["where"], "status": o["status"],
                            "detail": o["detail"][:300]})
    ev = {
        "property_id": rep.pid,
        "tier": rep.tier,
        "seed": seed,
        "level": "other",
        "coverage": {
            "explanation": "static analysis of /repo's current source as compiled by rustc (MIR, resolved callees): "
                           "every rule below is evaluated on every path of the inlined entry graphs it names; "
                           "nothing from /repo is executed. Rules: " +
                           " ".join("[%s] %s" % (k, v) for k, v in sorted(rep.rules.items())),
            "obligations": n_ob,
            "discharged": n_ok + len(matched),
            "evaluations": n_ob,
            "distinct_nontrivial": distinct,
            "rule": "one obligation per (rule, site) instance found in the MIR of the current tree; non-trivial = the verdict "
                    "needed a path, provenance or table argument (floor/existence checks are counted as trivial)",
            "samples": samples,
            "analysed": dict(ctx.stats, bodies=len(ctx.prog.bodies), target="lib, dev profile, -Zmir-opt-level=0",
                             source_hash=ctx.info.get("source_hash"), facts_cached=ctx.info.get("cached"),
                             extract_s=ctx.info.get("extract_s")),
            "known_findings_matched": sorted(seen_keys),
            "unmatched_violations": [o["key"] for o in new],
            "trusted_base": ["rustc 1.97-nightly type checker / MIR construction", "rlfacts projection (/verif/rlfacts)",
                             "rlrules CFG/product algorithms (/verif/rlrules/engine.py)",
                             "event alphabet: semantics attributed to std/dependency calls", "reference tables under /verif/spec"],
        },
        "assumptions": rep.assumptions + [
            "only the lib target in the dev profile is analysed; generic code is analysed unmonomorphised",
            "user Types/Codec implementations are total, deterministic and consistent with their trait contracts",
        ],
        "wall_s": round(time.time() - rep.t0 + float(ctx.info.get("extract_s") or 0), 3),
        "violations": len(new),
    }
    if extra:
        ev["coverage"].update(extra)
    if write:
        with open(os.path.join(VERIF, "evidence", "%s.json" % rep.pid), "w") as f:
            json.dump(ev, f, indent=1)
    return 1 if new else 0
