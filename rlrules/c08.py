"""C08 -- chunk files are deleted only when obsolete and durably purged, oldest first (R08.1 .. R08.6)."""
import re

from engine import (cmatch, cpath, expr_s, norm_learn, run_monitor, path_to, describe_path, strip_ids, OKV, ERRV, finals,
                    contains, smallest_loop)
from helpers import *
import c04

UNLINK_RX = r"fs::(remove_file|remove_dir|remove_dir_all|rename|hard_link|copy)$|FileExt::allocate$"
CLOSED = lambda e: is_field(e, "closed")
REMOVED = lambda e: is_field_nt(e, "removed_chunks")
SEND_RX = r"mpsc::SyncSender::<T>::(send|try_send)$|mpsc::Sender::<T>::send$"
NEXT_RX = r"iter::Iterator>?::next$"


def run(ctx, rep):
    rep.rule("R08.1", "fs::remove_file/remove_dir/rename occur only in the worker, on a RemoveChunks payload")
    rep.rule("R08.2", "flush sends RemoveChunks only after the Ok edge of sending the syncing Write; removed_chunks is drained completely and only there")
    rep.rule("R08.3", "in the worker no remove_file is reachable after a failed sync unless a later sync region succeeded")
    rep.rule("R08.4", "purge pops RaftLogWAL.closed only with pop_first, after the PurgeUpto record is journalled and applied, guarded by first.state.last <= upto, and schedules every popped chunk")
    rep.rule("R08.5", "the worker unlinks the received paths in forward order")
    rep.rule("R08.6", "every chunk file starts with a State record (all chunk-creating calls pass WALRecord::State)")

    wk, _, _ = ctx.worker_entry()
    g = ctx.graph(wk)
    P = ctx.product(wk)

    def is_payload(e):
        return contains(e, lambda x: isinstance(x, tuple) and len(x) == 3 and x[0] == "as" and x[2] == "RemoveChunks")

    def unlink_source(a_raw):
        """'payload' when the unlinked path is an element of the received RemoveChunks vector iterated forward,
        'queue' when it is taken (front to back) from a worker-owned vector that is only extended at the back with
        received payloads and emptied as a whole (drain(..) / mem::take / mem::replace); None otherwise.  The element may be the
        loop variable of a `for`, or the argument of a closure / function run per element by a forward adaptor."""
        ei = element_iterator(g, P, a_raw)
        if ei is None:
            return None
        it = ei[0]
        guard = 0
        while guard < 6 and (call_is(it, r"IntoIterator>?::into_iter$|iter::Iterator>?::(by_ref|fuse|peekable)$") and call_arg(it, 0) is not None):
            it = call_arg(it, 0)
            guard += 1
        if is_field(it, "chunk_paths") and is_payload(it):
            return "payload"
        q = None
        if call_is(it, r"Vec::<T, A>::drain$") and isinstance(call_arg(it, 1), tuple) and "RangeFull" in str(call_arg(it, 1)[1:2]):
            q = call_arg(it, 0)
        elif call_is(it, r"mem::(take|replace)$"):
            q = call_arg(it, 0)
        if q is None or not (isinstance(q, tuple) and q[0] == "field"):
            return None
        for m in P.calls(None):
            ea = event_args(g, m)
            if not ea or strip_ids(ea[0]) != q or not mut_first_arg(g, m):
                continue
            nm = cpath(g.term(m)).split("::")[-1]
            if nm in ("drain", "take", "replace"):
                continue
            if nm in ("extend", "append", "push") and len(ea) > 1 and is_payload(ea[1]):
                continue
            return None
        return "queue"

    # ---------------- R08.1 -------------------------------------------------------------
    sites = ctx.all_calls(UNLINK_RX)
    rep.floor("R08.1", "unlink-like calls in the crate", len(sites), 1)
    wnodes = {(g.inst(n).key, n[1]): n for n in P.calls(UNLINK_RX)}
    for n in P.calls(UNLINK_RX):
        i_ = g.inst(n)
        if i_.key.startswith("<shim>::") and i_.parent is not None:
            wnodes[(i_.parent.key, i_.call_bb)] = n      # the function was handed to an adaptor at that call site
    for b, bi, t in sites:
        where = "%s:%d" % (c04.rel_(t["file"]), t["line"])
        n = wnodes.get((b["key"], bi))
        if n is None:
            rep.violation("R08.1", "%s|%s-outside-worker" % (short_key(b["key"]), cpath(t).split("::")[-1]),
                          cpath(t), "a chunk file can be unlinked/renamed outside the flush worker's RemoveChunks handling",
                          where=where)
            continue
        a = event_args(g, n)[0]
        src = unlink_source(a)
        if src:
            rep.ok("R08.1", "%s(%s)" % (cpath(t).split("::")[-1], expr_s(strip_ids(a))[:70]),
                   "in worker, RemoveChunks payload%s" % (" via a FIFO queue only fed by payloads" if src == "queue" else ""), where=where)
        else:
            rep.violation("R08.1", "worker|unlink-arg:%s" % expr_s(strip_ids(a))[:60], cpath(t),
                          "the worker unlinks a path that is not a RemoveChunks payload", where=where)

    # ---------------- R08.3 -------------------------------------------------------------
    sync_nodes = P.calls(c04.SYNC_RX)
    sync_set = set(sync_nodes)
    write_set = set(P.calls(c04.WRITE_RX))
    push_set = {n for n in P.calls(r"Vec::<T, A>::push$") if c04.FILES(event_args(g, n)[0])}
    mut_set = {n for n in P.calls(None) if event_args(g, n) and c04.FILES(event_args(g, n)[0]) and mut_first_arg(g, n)}
    rm_nodes = P.calls(r"fs::remove_file$")
    rm_set = set(rm_nodes)

    sync_true = all(s_["rv"]["fields"][s_["rv"]["fnames"].index("sync")].get("int") == "1"
                    for _b, _bi, _si, s_ in ctx.all_aggregates(r"flush_request::WriteRequest$") if "sync" in s_["rv"]["fnames"])
    batch_pushes = {n for n in P.calls(r"Vec::<T, A>::push$")
                    if contains(event_args(g, n)[1], lambda x: isinstance(x, tuple) and len(x) == 3 and x[0] == "as" and x[2] == "Write")}

    def step3(ms, pi, qi, learn):
        synced, le1, failed, last_write = ms
        n = P.gnode(pi)
        if sync_true and c04.no_sync_branch_dead(ctx, g, P, pi):
            return None
        if n in batch_pushes:
            last_write = True
        if n in write_set or n in push_set:
            synced = False
        if n in mut_set and not cmatch(g.term(n), r"IndexMut<I>>::index_mut$|slice::<impl \[T\]>::(first_mut|last_mut|get_mut|iter_mut)$|ops::DerefMut>?::deref_mut$|Vec::<T, A>::(as_mut_slice|iter_mut)$"):
            le1 = False
        for origin, v in norm_learn(learn):
            cn = origin_call(origin)
            if sync_true and c04.no_sync_requested(ctx, g, origin, v):
                return None      # dead by R04.5: every request has sync = true
            if c04.len_gt1_contradiction(g, origin, v, le1):
                return None
            if c04.len_le1_fact(g, origin, v):
                le1 = True
            if c04.files_empty_fact(g, cn, v):
                le1, synced, failed = True, True, False     # no file listed at all: nothing is unsynced
            if cn in sync_set:
                if v in ERRV:
                    failed = True
                elif v in OKV and (c04.is_sync_of_last(g, cn) or (c04.is_sync_of_index(g, cn, 0) and le1)):
                    synced, failed = True, False
            # request kind being handled (switch on the WorkerRequest discriminant)
            if isinstance(origin, tuple) and origin and origin[0] == "place" and v in ("RemoveChunks", "AppendFile", "GetFlushStat"):
                sw = g.term(origin[2])
                if sw.get("enum", "").endswith("WorkerRequest"):
                    if v == "RemoveChunks" and not last_write:
                        return None      # infeasible by R08.2 + FIFO: a RemoveChunks request directly follows the flush's Write
                    last_write = False
        return (synced, le1, failed, last_write)

    seen = run_monitor(P, (False, False, False, False), step3)
    for n in rm_nodes:
        unsynced = next(((pi, ms) for (pi, ms) in seen if P.gnode(pi) == n and not ms[0] and not ms[2]), None)
        if unsynced:
            rep.violation("R08.3", "worker|remove_file-without-sync-since-last-write", "fs::remove_file",
                          "a chunk file can be unlinked although no successful sync has covered the newest file since bytes were last written to "
                          "it (by a Write batch, or by the caller when it created the chunk and wrote its head State record): the purge that made "
                          "the file obsolete may exist only in an unsynced file", where=g.where(n),
                          path=describe_path(P, [k[0] for k in path_to(seen, unsynced)]))
        else:
            rep.ok("R08.3", "fs::remove_file (durability)", "a successful sync region covers the newest file since the last write / AppendFile", where=g.where(n))
        bad = next(((pi, ms) for (pi, ms) in seen if P.gnode(pi) == n and ms[2]), None)
        if bad:
            rep.violation("R08.3", "worker|remove_file-after-failed-sync", "fs::remove_file",
                          "a chunk file can be unlinked on a path where the last sync failed and no later sync region succeeded: "
                          "the purge that made it obsolete is not durable", where=g.where(n),
                          path=describe_path(P, [k[0] for k in path_to(seen, bad)]))
        else:
            rep.ok("R08.3", "fs::remove_file", "not reachable after a failed sync without a later successful sync region", where=g.where(n))

    # ---------------- R08.5 -------------------------------------------------------------
    for n in rm_nodes:
        a = strip_ids(event_args(g, n)[0])
        if unlink_source(event_args(g, n)[0]):
            rep.ok("R08.5", "unlink loop", "iterates the received chunk_paths vector forward: %s" % expr_s(a)[:80], where=g.where(n))
        else:
            rep.violation("R08.5", "worker|unlink-order:%s" % expr_s(a)[:60], "unlink loop",
                          "the unlink loop does not iterate the received path vector itself, front to back", where=g.where(n))

    r08_7(ctx, rep, g, P)
    r08_2(ctx, rep)
    r08_4(ctx, rep)
    r08_6(ctx, rep)


def r08_2(ctx, rep):
    key = ctx.body_key(WRITER_RX % "flush")
    g = ctx.graph(key)
    P = ctx.product(key)
    sends = P.calls(SEND_RX)
    writes, removes = [], []
    for n in sends:
        wr = c04.write_request_of_send(g, n)
        if wr is None:
            rep.unresolved("R08.2", "send-of-unknown-request", "channel send whose payload is not a WorkerRequest aggregate", where=g.where(n))
            continue
        if wr[2] == "Write":
            writes.append(n)
        elif wr[2] == "RemoveChunks":
            removes.append((n, wr))
    rep.floor("R08.2", "RemoveChunks sends in Op(flush)", len(removes), 1)
    rep.floor("R08.2", "Write sends in Op(flush)", len(writes), 1)
    wset = set(writes)
    rset = {n for n, _ in removes}
    empties = [n for n in P.calls(r"Vec::<T, A>::is_empty$") if REMOVED(event_args(g, n)[0])]

    direct = returned_calls(g) & rset      # `self.wal.send_remove_chunks(..)` as the tail expression: Ok return <=> sent

    def step(ms, pi, qi, learn):
        wrote, need = ms
        if P.gnode(pi) in direct:
            need = False
        for o, v in norm_learn(learn):
            cn = origin_call(o)
            if cn in wset and v in OKV:
                wrote = True
            if cn in rset and v in OKV:
                need = False
            if cn in empties and v == "false":
                need = True
        return (wrote, need)
    seen = run_monitor(P, (False, False), step)
    for n, wr in removes:
        bad = next(((pi, ms) for (pi, ms) in seen if P.gnode(pi) == n and not ms[0]), None)
        if bad:
            rep.violation("R08.2", "flush|RemoveChunks-before-sync-write", "send(RemoveChunks)",
                          "the removal request can be sent without the syncing Write having been sent first", where=g.where(n),
                          path=describe_path(P, [k[0] for k in path_to(seen, bad)]))
        else:
            rep.ok("R08.2", "send(RemoveChunks)", "dominated by the Ok edge of send(Write{sync})", where=g.where(n))
        paths = strip_ids(wr[3][0]) if wr[3] else None
        # collect(drain(removed_chunks, ..))
        ok = paths is not None and contains(paths, lambda x: (call_is(x, r"Vec::<T, A>::drain$") and REMOVED(call_arg(x, 0))
                                                              and isinstance(call_arg(x, 1), tuple) and call_arg(x, 1)[0] == "agg"
                                                              and "RangeFull" in str(call_arg(x, 1)[1]))
                                            or (call_is(x, r"mem::(take|replace)$") and REMOVED(call_arg(x, 0))))
        if ok:
            rep.ok("R08.2", "RemoveChunks payload", "the whole removed_chunks list (drain(..) / mem::take)", where=g.where(n))
        else:
            rep.violation("R08.2", "flush|RemoveChunks-payload", "RemoveChunks payload",
                          "the removal request does not carry the complete drained removed_chunks list: %s" % expr_s(paths)[:100],
                          where=g.where(n))
    bad = None
    for (pi, ms) in seen:
        if P.gnode(pi) in g.exits and ms[1] and not exit_is_err(P, pi):
            bad = (pi, ms)
            break
    if bad:
        rep.violation("R08.2", "flush|scheduled-removals-not-sent", "Op(flush) Ok return",
                      "flush can return Ok with removed_chunks known non-empty and no RemoveChunks request sent", where=g.where(g.entry),
                      path=describe_path(P, [k[0] for k in path_to(seen, bad)]))
    else:
        rep.ok("R08.2", "Op(flush) Ok returns", "non-empty removed_chunks => RemoveChunks sent", where=g.where(g.entry))
    # positive form (liveness of removal): every Ok return has established that nothing is left scheduled
    def step_c(ms, pi, qi, learn):
        if P.gnode(pi) in direct:
            ms = True
        for o, v in norm_learn(learn):
            cn = origin_call(o)
            if cn in empties and v == "true":
                ms = True
            if cn in rset and v in OKV:
                ms = True
        return ms
    seen_c = run_monitor(P, False, step_c)
    bad_c = next(((pi, ms) for (pi, ms) in seen_c if P.gnode(pi) in g.exits and not ms and not exit_is_err(P, pi)), None)
    if bad_c:
        rep.violation("R08.2", "flush|ok-return-without-emptying-the-removal-list", "Op(flush) Ok return",
                      "flush can return Ok without having established that removed_chunks is empty or having sent the whole list to the "
                      "worker: files scheduled by a purge can stay on disk although the purge was flushed and the worker is idle",
                      where=g.where(P.gnode(bad_c[0])), path=describe_path(P, [k[0] for k in path_to(seen_c, bad_c)]))
    else:
        rep.ok("R08.2", "Op(flush) Ok returns (positive form)", "every Ok return follows `removed_chunks.is_empty()` or a sent RemoveChunks "
               "carrying the drained list", where=g.where(g.entry))

    # who mutates removed_chunks, over all public write entries
    for key2 in ctx.write_entries():
        g2 = ctx.graph(key2)
        P2 = ctx.product(key2)
        for n in P2.calls(None):
            a = event_args(g2, n)
            if not a or not REMOVED(a[0]) or not mut_first_arg(g2, n):
                continue
            nm = cpath(g2.term(n)).split("::")[-1]
            op = short_key(key2).split("::")[-1]
            if (nm == "push" and op == "purge") or (nm in ("drain", "take", "replace") and op == "flush"):
                rep.ok("R08.2", "removed_chunks.%s in %s" % (nm, op), "", where=g2.where(n), nontrivial=False)
            else:
                rep.violation("R08.2", "%s|removed_chunks.%s" % (op, nm), "removed_chunks.%s" % nm,
                              "removed_chunks is mutated outside purge(push)/flush(drain)", where=g2.where(n))


def r08_4(ctx, rep):
    key = ctx.body_key(WRITER_RX % "purge")
    g = ctx.graph(key)
    P = ctx.product(key)
    pops = [n for n in P.calls(r"BTreeMap::<K, V, A>::\w+$") if CLOSED(event_args(g, n)[0]) and mut_first_arg(g, n)
            and not cmatch(g.term(n), r"::(first_entry|last_entry|entry|get_mut|iter_mut|values_mut|range_mut)$")]
    pop_first = [n for n in pops if cmatch(g.term(n), r"::pop_first$")]
    # the Entry API: `closed.first_entry()` is a look at the oldest chunk, `entry.remove_entry()` / `entry.remove()` on it is pop_first
    first_entries = [n for n in P.calls(r"BTreeMap::<K, V, A>::first_entry$") if CLOSED(event_args(g, n)[0])]

    def from_first_entry(e):
        return contains(strip_ids(e), lambda x: call_is(x, r"BTreeMap::<K, V, A>::first_entry$") and CLOSED(call_arg(x, 0)))
    entry_removes = [n for n in P.calls(r"btree_map::OccupiedEntry::<'a, K, V, A>::(remove_entry|remove)$|OccupiedEntry<.*>::(remove_entry|remove)$")
                     if event_args(g, n) and from_first_entry(event_args(g, n)[0])]
    pop_first = pop_first + entry_removes
    pops = pops + entry_removes
    other_entry_mut = [n for n in P.calls(r"OccupiedEntry.*::(insert|get_mut|into_mut)$") if event_args(g, n) and
                       contains(strip_ids(event_args(g, n)[0]), lambda x: call_is(x, r"BTreeMap::<K, V, A>::\w*entry$") and CLOSED(call_arg(x, 0)))]
    pops = pops + other_entry_mut
    rep.floor("R08.4", "pop_first on RaftLogWAL.closed in Op(purge)", len(pop_first), 1)
    for n in pops:
        nm = cpath(g.term(n)).split("::")[-1]
        if nm == "pop_first":
            continue
        if nm in ("remove_entry", "remove") and n in entry_removes:
            continue
        if nm == "insert" and cmatch(g.term(n), r"BTreeMap::<K, V, A>::insert$"):
            k = event_args(g, n)[1]
            # the id of the chunk being closed: read from the open chunk (before or after it was swapped out)
            if contains(k, lambda x: call_is(x, r"mem::replace$")) or \
                    contains(strip_ids(k), lambda x: is_index(x, lambda b: is_field(b, "global_offsets") and has_field(b, "open"), 0)):
                rep.ok("R08.4", "closed.insert at rotation", "key derives from the chunk being closed", where=g.where(n), nontrivial=False)
                continue
        rep.violation("R08.4", "purge|closed.%s" % nm, "closed.%s" % nm,
                      "RaftLogWAL.closed is mutated in purge by something other than pop_first (oldest first)", where=g.where(n))
    applies = inlined_calls(g, r"as api::state_machine::StateMachine<.*>>::apply$", P.live)
    rep.floor("R08.4", "StateMachine::apply calls in Op(purge)", len(applies), 1)
    outs = [call_outcome(P, cn) for cn in applies]
    cmps = P.calls(r"cmp::PartialOrd(<.*>)?>?::(gt|ge|lt|le)$|cmp::impls::<impl .*PartialOrd.*>::(gt|ge|lt|le)$")

    def guard_fact(cn, v):
        a = [strip_ids(x) for x in event_args(g, cn)]
        nm = cpath(g.term(cn)).split("::")[-1]

        def is_last(e):
            return is_field(e, "last") and is_field(e[1], "state") and \
                contains(e, lambda x: call_is(x, r"BTreeMap::<K, V, A>::(first_key_value|first_entry)$") and CLOSED(call_arg(x, 0)))

        def is_upto(e):
            return isinstance(e, tuple) and e[0] == "agg" and e[2] == "Some" and e[3] and e[3][0] == ("arg", 2)
        if is_last(a[0]) and is_upto(a[1]):
            return (nm, v) in (("gt", "false"), ("le", "true"))
        if is_upto(a[0]) and is_last(a[1]):
            return (nm, v) in (("lt", "false"), ("ge", "true"))
        return False

    pushes = [n for n in P.calls(r"Vec::<T, A>::push$") if REMOVED(event_args(g, n)[0])]
    pset = set(pop_first)
    popset_any = set(pops)

    peeks = set(n for n in P.calls(r"BTreeMap::<K, V, A>::(first_key_value|first_entry)$") if CLOSED(event_args(g, n)[0]))
    opp = {"true": "false", "false": "true"}

    def stop_fact(cn, v):
        # the negation of the pop guard: first.state.last > upto
        return v in opp and guard_fact(cn, opp[v])

    def step_stop(ms, pi, qi, learn):
        applied, stopped = ms
        n = P.gnode(pi)
        if n in popset_any:
            stopped = False
        for f in outs:
            if f(pi, qi, learn) == "ok":
                applied = True
                stopped = False
        for o, v in norm_learn(learn):
            cn = origin_call(o)
            if cn in peeks and v == "None":
                stopped = True
            if cn in pset and v == "None":
                stopped = True           # pop_first() answered None: no closed chunk is left
            if cn in cmps and stop_fact(cn, v):
                stopped = True
        return (applied, stopped)
    seen_stop = run_monitor(P, (False, False), step_stop)
    bad_stop = None
    for (pi, ms0, ms) in finals(P, seen_stop, step_stop):
        if P.gnode(pi) in g.exits and ms[0] and not ms[1] and not exit_is_err(P, pi):
            bad_stop = (pi, ms0)
            break
    if bad_stop:
        rep.violation("R08.4", "purge|returns-before-all-obsolete-chunks-are-scheduled", "Op(purge) Ok return",
                      "after the purge record was applied, purge can return Ok without having established that no closed chunk is left "
                      "(first_key_value() == None) or that the oldest one still holds entries above the purge point (last > upto): obsolete "
                      "chunk files stay on disk although the purge was flushed and the worker is idle",
                      where=g.where(P.gnode(bad_stop[0])), path=describe_path(P, [k[0] for k in path_to(seen_stop, bad_stop)]))
    else:
        rep.ok("R08.4", "purge selects every obsolete closed chunk", "every Ok return after the purge record follows `closed is empty` or "
               "`first.state.last > upto`, evaluated since the last pop", where=g.where(g.entry))

    def step(ms, pi, qi, learn):
        applied, guarded, pending = ms
        n = P.gnode(pi)
        if n in popset_any:
            guarded = False
            if n in pset:
                pending = True
        if n in pushes:
            v = event_args(g, n)[1]
            if contains_src(g, v, lambda x: call_is(x, r"BTreeMap::<K, V, A>::pop_first$|OccupiedEntry.*::(remove_entry|remove)$")):
                pending = False
        for f in outs:
            if f(pi, qi, learn) == "ok":
                applied = True
        for o, v in norm_learn(learn):
            cn = origin_call(o)
            if cn in cmps and guard_fact(cn, v):
                guarded = True
            if cn in pset and v == "None":
                pending = False          # nothing was popped
        return (applied, guarded, pending)
    seen = run_monitor(P, (False, False, False), step)
    for n in pop_first:
        b1 = next(((pi, ms) for (pi, ms) in seen if P.gnode(pi) == n and not ms[0]), None)
        b2 = next(((pi, ms) for (pi, ms) in seen if P.gnode(pi) == n and not ms[1]), None)
        b3 = next(((pi, ms) for (pi, ms) in seen if P.gnode(pi) == n and ms[2]), None)
        if b1:
            rep.violation("R08.4", "purge|pop-before-purge-record-applied", "closed.pop_first",
                          "a closed chunk can be scheduled for removal before the PurgeUpto record is journalled and applied",
                          where=g.where(n), path=describe_path(P, [k[0] for k in path_to(seen, b1)]))
        else:
            rep.ok("R08.4", "closed.pop_first after journal+apply", "", where=g.where(n))
        if b2:
            rep.violation("R08.4", "purge|pop-not-guarded-by-last<=upto", "closed.pop_first",
                          "a closed chunk is popped on a path that has not established first.state.last <= upto for the current first chunk",
                          where=g.where(n), path=describe_path(P, [k[0] for k in path_to(seen, b2)]))
        else:
            rep.ok("R08.4", "closed.pop_first guarded by first.state.last <= upto", "", where=g.where(n))
        if b3:
            rep.violation("R08.4", "purge|popped-chunk-not-scheduled", "closed.pop_first",
                          "a popped chunk is not pushed to removed_chunks before the next pop", where=g.where(n))
    bad = next(((pi, ms) for (pi, ms) in seen if P.gnode(pi) in g.exits and ms[2] and not exit_is_err(P, pi)), None)
    if bad:
        rep.violation("R08.4", "purge|popped-chunk-not-scheduled-at-exit", "Op(purge) Ok return",
                      "purge can return Ok having popped a closed chunk without scheduling its file for removal (the file leaks and "
                      "is never deleted)", where=g.where(g.entry), path=describe_path(P, [k[0] for k in path_to(seen, bad)]))
    else:
        rep.ok("R08.4", "every popped chunk is scheduled", "pop_first => removed_chunks.push(path of popped id) before exit/next pop",
               where=g.where(g.entry))


def r08_6(ctx, rep):
    # chunk-creating function = the body containing OpenOptions::create_new(true)
    creators = chunk_creators(ctx)
    if not rep.expect("R08.6", "chunk-creating function", len(creators) == 1, "expected exactly one body calling OpenOptions::create_new, found %s" % sorted(creators)):
        return
    ck = list(creators)[0]
    total = 0
    for ek in [ctx.body_key(WRITER_RX % "append"), ctx.body_key(r"RaftLog::<T>::open$")]:
        g = ctx.graph(ek)
        P = ctx.product(ek)
        for n, sub in g.callee_inst.items():
            if sub.key != ck or n not in P.live:
                continue
            total += 1
            args = event_args(g, n)
            if any(isinstance(a, tuple) and a and a[0] == "agg" and a[1].endswith("WALRecord") and a[2] == "State" for a in args):
                rep.ok("R08.6", "chunk creation in %s" % short_key(ek), "first record is WALRecord::State", where=g.where(n))
            else:
                rep.violation("R08.6", "%s|chunk-created-without-State-head" % short_key(ek).split("::")[-1], "chunk creation",
                              "a chunk file is created whose first record is not a State snapshot: %s" %
                              [expr_s(strip_ids(a))[:50] for a in args], where=g.where(n))
    rep.floor("R08.6", "chunk-creating call sites (rotation, open)", total, 2)


def r08_7(ctx, rep, g, P, rule="R08.7"):
    """`wait_worker_idle` observes `done_seq`: the worker may publish a sequence number only after every effect of the requests it
    covers (file writes/syncs/unlinks, callbacks, eviction-boundary update); otherwise 'worker idle' does not mean 'chunks gone' / 'boundary installed'"""
    rep.rule(rule, "the worker publishes done_seq only after all effects of the covered requests: between the store and the next recv there is no "
                   "file mutation, sync, callback or boundary update")
    stores = [n for n in P.calls(r"atomic::Atomic(U64|Usize)?(::<u64>)?::(store|fetch_max|fetch_add|swap)$") if has_field(strip_ids(event_args(g, n)[0]), "done_seq")]
    rep.floor(rule, "done_seq updates in the worker", len(stores), 1)
    recvs = set(P.calls(r"mpsc::Receiver::<T>::recv$"))
    effects = set(P.calls(c04.WRITE_RX)) | set(P.calls(c04.SYNC_RX)) | set(P.calls(r"fs::(remove_file|rename)$")) | \
        set(P.calls(r"callback::Callback::send$"))
    bset = {n for n in P.live if any(s["k"] == "assign" and s["p"]["proj"] and
                                     [el for el in s["p"]["proj"] if isinstance(el, dict) and el.get("n") == "last_evictable"] for s in g.stmts(n))}
    effects |= bset
    sset = set(stores)

    def step(ms, pi, qi, learn):
        n = P.gnode(pi)
        if n in recvs:
            return False
        if n in sset:
            return True
        return ms
    seen = run_monitor(P, False, step)
    late = sorted({n for n in effects if any(P.gnode(pi) == n and ms for (pi, ms) in seen)})
    for n in late:
        what = cpath(g.term(n)).split("::")[-1] if g.term(n)["k"] == "call" else "last_evictable :="
        rep.violation(rule, "worker|%s-after-done_seq" % what, what,
                      "the worker marks requests as done (done_seq) before `%s`: wait_worker_idle() can return while chunk files are still being "
                      "written/synced/unlinked or the eviction boundary is not installed yet" % what, where=g.where(n))
    if not late:
        rep.ok(rule, "done_seq", "published after all effects of the iteration (%d stores, %d effect sites)" % (len(stores), len(effects)), where=g.where(stores[0]) if stores else "")
    # and idleness is decided by comparing the published value with the number of requests sent
    wk = [k for k in ctx.prog.bodies if re.search(r"RaftLog::<T>::wait_worker_idle$", k)]
    if rep.expect(rule, "RaftLog::wait_worker_idle", len(wk) == 1):
        gi = ctx.graph(wk[0])
        Pi = ctx.product(wk[0])
        loads = [n for n in Pi.calls(r"atomic::Atomic(U64)?(::<u64>)?::load$") if has_field(strip_ids(event_args(gi, n)[0]), "done_seq")]
        ok = False
        for n in Pi.live:
            for si, s in enumerate(gi.stmts(n)):
                if s["k"] == "assign" and s["rv"]["k"] == "binop" and s["rv"]["op"] in ("Lt", "Ge", "Le", "Gt", "Eq", "Ne"):
                    e = strip_ids(gi.prov_rvalue(gi.inst(n), s["rv"], None))
                    a, b = e[2], e[3]
                    if (call_is(a, r"::load$") and is_field(b, "sent_seq") and e[1] in ("Lt", "Ge")) or \
                            (call_is(b, r"::load$") and is_field(a, "sent_seq") and e[1] in ("Gt", "Le")):
                        ok = True
        if ok and loads:
            rep.ok(rule, "wait_worker_idle", "spins while done_seq < sent_seq", where=gi.where(gi.entry))
        else:
            rep.violation(rule, "wait_worker_idle|condition", "wait_worker_idle",
                          "idleness is not decided by `done_seq >= sent_seq` (all requests sent so far)", where=gi.where(gi.entry))
