"""C05 -- crash recoverability: open succeeds after any crash and never panics.
R05.1 recovery cannot panic (min-length invariant of Chunk.global_offsets + reviewed inventory of panic-capable sites),
R05.2 rotation order, R05.3 recovery leaves an openable directory."""
import json
import os
import re

from engine import (cmatch, cpath, expr_s, norm_learn, run_monitor, path_to, describe_path, strip_ids, OKV, ERRV, contains, finals)
from helpers import *
from helpers import _defs_exprs
from common import VERIF, rel
import c04
import c09
import c16

SEND_RX = r"mpsc::SyncSender::<T>::(send|try_send)$|mpsc::Sender::<T>::send$"


def shape(e):
    s = expr_s(strip_ids(e))
    s = s.replace("boxed::box_assume_init_into_vec_unsafe(Box::new_uninit())", "vec![..]")
    return s


def load_table():
    with open(os.path.join(VERIF, "spec", "c05_panic_sites.json")) as f:
        return json.load(f)


def vec_initial_len(g, e):
    """number of elements a vector expression is created with, or None"""
    if not isinstance(e, tuple) or not e:
        return None
    if e[0] == "call":
        if re.search(r"Vec::<T(, A)?>::(new|with_capacity)$", e[1]):
            return 0
        if re.search(r"box_assume_init_into_vec_unsafe$|slice::<impl \[T\]>::into_vec$", e[1]) and e[2]:
            inner = e[2][0]
            if isinstance(inner, tuple) and inner and inner[0] == "call" and len(inner) > 3:
                t = g.term(inner[3])
                m = re.search(r"\[[^\[\];]+; (\d+)\]", (t.get("callee") or {}).get("full", ""))
                if m:
                    return int(m.group(1))
            return None
        if re.search(r"vec::from_elem$", e[1]) and len(e[2]) > 1 and is_const(e[2][1]):
            return int(e[2][1][1])
    return None


def chunk_sites(ctx, key):
    """[(inst, vec expr with ids, initial len, min pushes before the constructing function returns Ok)]"""
    g = ctx.graph(key)
    P = ctx.product(key)
    out = []
    for n in sorted(P.live):
        inst = g.inst(n)
        for si, s in enumerate(g.stmts(n)):
            if s["k"] == "assign" and s["rv"]["k"] == "agg" and s["rv"].get("adt") == "chunk::Chunk":
                fields = dict(zip(s["rv"]["fnames"], s["rv"]["fields"]))
                if "global_offsets" not in fields:
                    continue
                V = g.prov_operand(inst, fields["global_offsets"])
                out.append((inst, n, si, V))
    res = []
    for inst, n, si, V in out:
        Vs = V
        V = canon_vars(g, V)
        same = lambda e, V=V: canon_vars(g, e) == V
        init = vec_initial_len(g, V)
        create = V[3] if (isinstance(V, tuple) and V and V[0] == "call" and len(V) > 3) else None
        if init is None and isinstance(V, tuple) and len(V) == 3 and V[0] == "field" and isinstance(V[1], tuple) and V[1] and V[1][0] == "var":
            # the vector lives in a field of a local bundle (`scanned.global_offsets`): its initial value is the field of the bundle's
            # one construction
            whole = [x for x in _defs_exprs(g, g.insts[V[1][1]], V[1][2]) if isinstance(x, tuple) and x and x[0] == "agg"]
            if len(whole) == 1:
                a_ = ctx.facts.adts.get(whole[0][1])
                names = [f["name"] for f in a_["variants"][0]["fields"]] if a_ else []
                if V[2] in names and len(names) == len(whole[0][3]):
                    v0 = whole[0][3][names.index(V[2])]
                    init = vec_initial_len(g, v0)
                    create = v0[3] if (isinstance(v0, tuple) and v0 and v0[0] == "call" and len(v0) > 3) else None
        pushes = {m for m in P.calls(r"Vec::<T, A>::push$") if same(event_args(g, m)[0])}
        others = [m for m in P.calls(r"Vec::<T, A>::\w+$") if same(event_args(g, m)[0]) and mut_first_arg(g, m)
                  and m not in pushes]

        def step(ms, pi, qi, learn, pushes=pushes, create=create):
            n_ = P.gnode(pi)
            if create is not None and n_ == create:
                return 0
            if n_ in pushes:
                return min(ms + 1, 3)
            return ms
        seen = run_monitor(P, 0, step)
        rets = {(inst.id, bi) for bi, blk in enumerate(inst.body["blocks"]) if not blk["cleanup"] and blk["term"]["k"] == "return"}
        mins = []
        for (pi, ms0, ms) in [(pi, ms, step(ms, pi, None, ())) for (pi, ms) in seen if P.gnode(pi) in rets]:
            tag = P.tags_after_block(pi).get((inst.id, 0, ()))
            if tag and tag[0] in ("Err", "None"):
                continue
            mins.append(ms)
        res.append({"inst": inst, "where": g.where(n, si), "V": Vs, "init": init, "min_push": min(mins) if mins else None,
                    "other_mutators": [cpath(g.term(m)).split("::")[-1] for m in others]})
    return g, P, res


def guarded_subtractions(g, P):
    """Overflow(Sub)(a, b) assert nodes that every path reaches with `a >= b` established by a comparison of the same two operands
    (same provenance, same variable instances) and no redefinition of a variable they mention in between."""
    want = {}
    for n in P.live:
        t = g.term(n)
        if t["k"] == "assert" and not t["synthetic"] and t["akind"] == "Overflow(Sub)" and len(t["ops"]) == 2:
            a, b = (g.prov_operand(g.inst(n), o) for o in t["ops"])
            want[n] = (a, b)
    if not want:
        return set()
    pairs = set(want.values())
    GE = {("Gt", "true"): 0, ("Gt", "false"): 1, ("Ge", "true"): 0, ("Ge", "false"): 1,
          ("Lt", "true"): 1, ("Lt", "false"): 0, ("Le", "true"): 1, ("Le", "false"): 0}

    def vars_of(e, out):
        if isinstance(e, tuple):
            if e and e[0] == "var":
                out.add((e[1], e[2]))
            for x in e:
                vars_of(x, out)
        return out
    pvars = {p: vars_of(p, set()) for p in pairs}
    verdict = {}

    def step(ms, pi, qi, learn):
        facts = set(ms)
        n = P.gnode(pi)
        inst = g.inst(n)
        for st in g.stmts(n):
            if st["k"] == "assign" and not st["p"]["proj"]:
                key = (inst.id, st["p"]["l"])
                facts = {f for f in facts if key not in pvars[f]}
        t = g.term(n)
        if t["k"] == "call" and t.get("dest") and not t["dest"]["proj"]:
            key = (inst.id, t["dest"]["l"])
            facts = {f for f in facts if key not in pvars[f]}
        if n in want:
            verdict[n] = verdict.get(n, True) and (want[n] in facts)
        for o, v in norm_learn(learn or []):
            e = origin_stmt_expr(g, o)
            if e is None or e[0] != "binop":
                continue
            side = GE.get((e[1], v))
            if side is None:
                continue
            big, small = (e[2], e[3]) if side == 0 else (e[3], e[2])
            if (big, small) in pairs:
                facts.add((big, small))
        return frozenset(facts)
    run_monitor(P, frozenset(), step)
    return {n for n, ok in verdict.items() if ok}


def run(ctx, rep):
    rep.rule("R05.1", "recovery cannot panic: (a) every `len - k` / `[len - k]` on Chunk.global_offsets in Op(open) has k <= the minimum "
                      "length the offset vector can have when its constructing function returns Ok (vec![x] + dominating pushes; only "
                      "push mutates it); (b) every Option unwrap in Op(open)'s cone is reached only with the value established Some (variant test, "
                      "comparison, peek-before-pop, minimum length), every Result unwrap is a lock acquisition or the thread spawn, no explicit "
                      "panic is reachable, and `a - b` guarded by a comparison of the same operands is recognised; (c) the remaining integer "
                      "arithmetic / indexing sites are an inventory matched against the reviewed rows of spec/c05_panic_sites.json - reported, "
                      "not armed (they are questions about values)")
    rep.rule("R05.2", "at rotation the next chunk file is not created before the old chunk's unwritten tail is handed to the worker")
    rep.rule("R05.3", "after a tail truncation set_len is followed by sync_all Ok before the chunk is used; the new open chunk's id is "
                      "the end offset of the last recovered chunk")
    open_key = ctx.body_key(r"RaftLog::<T>::open$")
    g, P, sites = chunk_sites(ctx, open_key)
    rep.floor("R05.1", "Chunk{..} construction sites reachable in Op(open)", len(sites), 2)
    minlen_by_V = {}
    for s in sites:
        if s["init"] is None or s["min_push"] is None:
            rep.unresolved("R05.1", "chunk-site:%s" % short_key(s["inst"].key), "cannot determine the initial length / pushes of the offset vector",
                           where=s["where"])
            continue
        if s["other_mutators"]:
            rep.violation("R05.1", "offsets-mutated-by:%s" % ",".join(sorted(set(s["other_mutators"]))), "Chunk.global_offsets",
                          "the offset vector is mutated by something other than push: the minimum-length invariant is void", where=s["where"])
        ml = s["init"] + s["min_push"]
        minlen_by_V[s["V"]] = min(ml, minlen_by_V.get(s["V"], 99))
        rep.ok("R05.1", "Chunk built in %s" % short_key(s["inst"].key), "offset vector has at least %d element(s) on every Ok return "
               "(created with %d, +%d dominating push)" % (ml, s["init"], s["min_push"]), where=s["where"])
    global_min = min(minlen_by_V.values()) if minlen_by_V else 0
    loader_insts = {s_["inst"].id for s_ in sites}

    def _inst_chain(i):
        while i is not None:
            yield i
            i = i.parent

    table = load_table()
    seen_sites = set()
    n_sites = 0
    unmatched = 0
    guarded = guarded_subtractions(g, P)
    opt_verdict, _cand = c16.option_unwrap_verdicts(g, P)
    n_inventory = n_reviewed = 0
    inventory_new = []
    for n in sorted(P.live):
        t = g.term(n)
        sid = (g.inst(n).key, n[1])
        sig = None
        offs_k = None
        if t["k"] == "assert" and not t["synthetic"]:
            ops = [g.prov_operand(g.inst(n), o) for o in t["ops"]]
            sig = "%s(%s)" % (t["akind"], ", ".join(shape(o) for o in ops))
            if t["akind"] == "Overflow(Sub)" and len(ops) == 2 and call_is(strip_ids(ops[0]), r"Vec::<T, A>::len$") and is_const(ops[1]):
                V = call_arg(ops[0], 0)
                if V in minlen_by_V or is_field(strip_ids(V), "global_offsets"):
                    offs_k = (int(ops[1][1]), minlen_by_V.get(V, global_min))
        elif t["k"] == "call" and n not in g.callee_inst:
            if cmatch(t, c16.EXPLICIT_PANIC_RX):
                sig = "explicit:%s" % (t.get("macros") or ["panic"])[-1]
            elif cmatch(t, c16.MAYPANIC_RX) and not t.get("exp"):
                args = event_args(g, n)
                nm = cpath(t).split("::")[-1]
                if nm in ("unwrap", "expect", "unwrap_err", "expect_err"):
                    sig = "%s(%s)" % (nm, shape(args[0]) if args else "")
                else:
                    sig = "%s(%s)" % (nm, ", ".join(shape(a) for a in args))
                if nm in ("index", "index_mut") and len(args) > 1:
                    V = args[0]
                    i = strip_ids(args[1])
                    if (V in minlen_by_V or is_field(strip_ids(V), "global_offsets")) and is_field(i, "0") and i[1][0] == "binop" \
                            and i[1][1].startswith("Sub") and call_is(i[1][2], r"Vec::<T, A>::len$") and is_const(i[1][3]):
                        offs_k = (int(i[1][3][1]), minlen_by_V.get(V, global_min))
                    elif (V in minlen_by_V or is_field(strip_ids(V), "global_offsets")) and is_const(i):
                        # offsets[c]: needs at least c + 1 elements
                        offs_k = (int(i[1]) + 1, minlen_by_V.get(V, global_min))
        if sig is None or sid in seen_sites:
            continue
        seen_sites.add(sid)
        n_sites += 1
        if offs_k is not None:
            k, ml = offs_k
            if k > ml:
                # where the vector is used decides what it is called: inside the function that builds the chunk value (and its helpers)
                # it is the vector of a chunk under construction, anywhere else it belongs to a loaded chunk
                in_loader = any(a_.id in loader_insts for a_ in _inst_chain(g.inst(n)))
                vname = "offsets-of-a-chunk-under-construction" if in_loader else "offsets"
                keysig = re.sub(r"[\w:.]*\.global_offsets|vec!\[\.\.\]", vname, sig)
                rep.violation("R05.1", "open|%s|min-len=%d" % (keysig[:110], ml),
                              sig[:100], "recovery can panic: the offset vector of a recovered chunk can have only %d element(s) (a chunk "
                              "file with zero complete records) but this site needs %d" % (ml, k), where=g.where(n))
            else:
                rep.ok("R05.1", sig[:90], "k=%d <= min length %d" % (k, ml), where=g.where(n))
            continue
        if n in guarded:
            rep.ok("R05.1", sig[:90], "engine-checked: `a - b` is reached only after a comparison of the same two operands established a >= b",
                   where=g.where(n))
            continue
        # ---- engine-decided classes (armed) ----
        if t["k"] == "call" and cmatch(t, c16.OPT_UNWRAP_RX):
            a0 = event_args(g, n)
            V = a0[0] if a0 else None
            lastv = V if (isinstance(V, tuple) and V and V[0] == "call" and re.search(r"slice::<impl \[T\]>::(last|first)$", str(V[1]))) else None
            if lastv is not None and lastv[2] and (lastv[2][0] in minlen_by_V and minlen_by_V[lastv[2][0]] >= 1):
                rep.ok("R05.1", sig[:90], "engine-checked: first()/last() of an offset vector whose minimum length is %d"
                       % minlen_by_V[lastv[2][0]], where=g.where(n))
            elif opt_verdict.get(n):
                rep.ok("R05.1", sig[:90], "engine-checked: the Option is established Some on every path reaching the unwrap", where=g.where(n))
            else:
                row = next((r for r in table if re.search(r["shape"], sig)), None)
                if row and row.get("engine_fallback"):
                    rep.ok("R05.1", sig[:90], "reviewed: " + row["reason"][:110], where=g.where(n), nontrivial=False)
                else:
                    unmatched += 1
                    rep.violation("R05.1", "open|unguarded-unwrap:%s" % re.sub(r"v\d+_\d+", "v", sig)[:100], sig[:100],
                                  "an Option is unwrapped in the recovery path without the path having established it to be Some (no variant "
                                  "test, comparison, peek-before-pop or minimum-length argument): some crash image makes recovery panic",
                                  where=g.where(n))
            continue
        if t["k"] == "call" and cmatch(t, r"Result::<T, E>::(unwrap|expect|unwrap_err|expect_err)$"):
            raw = t["args"][0] if t.get("args") else None
            ty = g.inst(n).body["locals"][raw["p"]["l"]]["ty"] if raw and raw.get("p") else ""
            if re.search(r"PoisonError|RwLock(Read|Write)Guard|MutexGuard", ty):
                rep.ok("R05.1", sig[:90], "lock acquisition: a poisoned lock needs an earlier panic while it was held (R16.4); recovery is "
                       "single-threaded until the worker is spawned", where=g.where(n), nontrivial=False)
            elif re.search(r"JoinHandle", ty):
                rep.ok("R05.1", sig[:90], "thread spawn failure is an OS resource condition, independent of the crash image", where=g.where(n),
                       nontrivial=False)
            else:
                unmatched += 1
                rep.violation("R05.1", "open|result-unwrap:%s" % re.sub(r"v\d+_\d+", "v", sig)[:100], sig[:100],
                              "a Result is unwrapped in the recovery path: an I/O or decode error on some crash image becomes a panic instead of "
                              "an error return", where=g.where(n))
            continue
        if sig.startswith("explicit:"):
            unmatched += 1
            rep.violation("R05.1", "open|explicit-panic:%s" % sig[9:60], sig[:100],
                          "an explicit panic / assertion is reachable in the recovery path", where=g.where(n))
            continue
        # ---- everything else (integer arithmetic, indexing, range calls): not decidable by the engine; kept as a reviewed inventory ----
        row = next((r for r in table if re.search(r["shape"], sig)), None)
        n_inventory += 1
        if row:
            n_reviewed += 1
            rep.ok("R05.1", sig[:90], "inventory, reviewed: " + row["reason"][:100], where=g.where(n), nontrivial=False)
        else:
            inventory_new.append("%s (%s)" % (sig[:80], g.where(n)))
    rep.floor("R05.1", "panic-capable sites examined in Op(open)", n_sites, 30)
    rep.ok("R05.1", "inventory of arithmetic / indexing sites in the recovery cone",
           "%d site(s), %d matching a reviewed row of spec/c05_panic_sites.json, %d not reviewed (listed in the notes; NOT armed: whether "
           "integer arithmetic on offsets and lengths can overflow is a question about values)" % (n_inventory, n_reviewed, len(inventory_new)),
           nontrivial=False)
    for x in inventory_new[:20]:
        rep.notes.append("R05.1 inventory, not reviewed: " + x)

    # ---------------- R05.2 -------------------------------------------------------------
    key = ctx.body_key(WRITER_RX % "append")
    ga = ctx.graph(key)
    Pa = ctx.product(key)
    creates = [n for n in Pa.calls(r"fs::OpenOptions::open$")
               if creates_file(ga, n)]
    rep.floor("R05.2", "chunk file creations at rotation", len(creates), 1)
    tails = {n for n in Pa.calls(SEND_RX) if (c04.write_request_of_send(ga, n) or (0, 0, ""))[2] == "Write"}

    def step2(ms, pi, qi, learn):
        for o, v in norm_learn(learn):
            if origin_call(o) in tails and v in OKV:
                ms = True
        return ms
    seen2 = run_monitor(Pa, False, step2)
    for n in creates:
        bad = next(((pi, ms) for (pi, ms) in seen2 if Pa.gnode(pi) == n and not ms), None)
        if bad:
            rep.violation("R05.2", "append|create-next-chunk-before-tail-handover", "OpenOptions::open(create_new)",
                          "the next chunk file is created (caller thread) before the old chunk's buffered tail is even handed to the "
                          "worker: a process crash in between leaves 'new chunk present, old tail missing', which open refuses as a gap",
                          where=ga.where(n))
        else:
            rep.ok("R05.2", "OpenOptions::open(create_new)", "after the old tail hand-over", where=ga.where(n))

    # ---------------- R05.7 -------------------------------------------------------------
    rep.rule("R05.7", "a chunk file never outlives the operation that created it without its head record: on every path from the Ok edge of "
                      "the create_new open to an Ok return of the operation (rotation in the write path; start-up in open) the Ok edge of a write "
                      "to that very file is crossed. Recovery needs >= 1 complete record per chunk file (R05.1's known finding is the window "
                      "inside the creating function; leaving the head record in a buffer widens it to `until the next flush`)")
    for opname_, k7 in (("append", key), ("open", ctx.body_key(r"RaftLog::<T>::open$"))):
        g7 = ctx.graph(k7)
        P7 = ctx.product(k7)
        cr7 = {n for n in P7.calls(r"fs::OpenOptions::open$")
               if creates_file(g7, n)}
        rep.floor("R05.7", "chunk file creations in Op(%s)" % opname_, len(cr7), 1)
        cr7_ids = set(cr7)
        wr7 = {n for n in P7.calls(c04.WRITE_RX)
               if contains(event_args(g7, n)[0], lambda x: isinstance(x, tuple) and len(x) > 3 and x[0] == "call" and x[3] in cr7_ids)}

        def step7(ms, pi, qi, learn, cr7=cr7, wr7=wr7):
            for o, v in norm_learn(learn):
                cn = origin_call(o)
                if cn in cr7 and v in OKV:
                    ms = True
                if cn in wr7 and v in OKV:
                    ms = False
            return ms
        seen7 = run_monitor(P7, False, step7)
        bad7 = None
        for (pi, ms0, ms) in finals(P7, seen7, step7):
            if ms and P7.gnode(pi) in g7.exits:
                tag = P7.tags_after_block(pi).get((0, 0, ()))
                if not (tag and tag[0] == "Err"):
                    bad7 = (pi, ms0)
        if bad7:
            rep.violation("R05.7", "%s|chunk-file-created-without-head-record" % opname_, "Op(%s): OpenOptions::open(create_new) ... Ok return" % opname_,
                          "the operation can return Ok after creating a chunk file to which nothing has been written: until some later flush the "
                          "directory holds an empty r-<offset>.wal, and any process exit in that window makes every later open fail "
                          "(Chunk::last_segment on a chunk with zero records)", where=g7.where(sorted(cr7)[0]) if cr7 else "",
                          path=describe_path(P7, [k_[0] for k_ in path_to(seen7, bad7)]))
        else:
            rep.ok("R05.7", "Op(%s): created chunk file receives its head record before the operation returns Ok" % opname_,
                   "%d creation site(s), %d write site(s) on the created file" % (len(cr7), len(wr7)), where=g7.where(sorted(cr7)[0]) if cr7 else "")

    # ---------------- R05.3 -------------------------------------------------------------
    M = c09.OpenModel(ctx)
    sl = set(M.set_len)
    sa = set(M.sync_all)

    def step3(ms, pi, qi, learn):
        n = P.gnode(pi)
        if n in sl:
            ms = True
        for o, v in norm_learn(learn):
            if origin_call(o) in sa and v in OKV:
                ms = False
        return ms
    seen3 = run_monitor(P, False, step3)
    bad = None
    for (pi, ms0, ms) in finals(P, seen3, step3):
        if ms and P.gnode(pi) in g.exits and not exit_is_err(P, pi):
            bad = (pi, ms0)
    # also: the truncated chunk value must not escape its constructing function unsynced
    if bad:
        rep.violation("R05.3", "open|truncation-not-synced", "set_len without sync_all",
                      "open can succeed after truncating a chunk tail without a successful sync_all: after a second crash the cut tail can "
                      "reappear next to a new chunk that starts at the cut offset", where=g.where(P.gnode(bad[0])),
                      path=describe_path(P, [k[0] for k in path_to(seen3, bad)]))
    else:
        rep.ok("R05.3", "set_len => sync_all Ok before open returns Ok", "", where=g.where(g.entry))
    # new open chunk id = end of the last recovered chunk
    creators = chunk_creators(ctx)
    found = 0
    for n, sub in g.callee_inst.items():
        if sub.key not in creators or n not in P.live:
            continue
        found += 1
        args = [strip_ids(a) for a in event_args(g, n)]
        ids = [a for a in args if isinstance(a, tuple) and a and a[0] == "agg" and str(a[1]).endswith("ChunkId")]
        ok = False
        why = ""
        if ids:
            v = ids[0][3][0]
            # unwrap_or_default(prev_end_offset var) where every Some assignment of that var is Span::end(last segment of the chunk)
            if call_is(v, r"Option::<T>::unwrap_or_default$|Option::<T>::unwrap_or$"):
                # the un-stripped operand identifies the carried variable / struct field
                raw = [a for a in event_args(g, n) if isinstance(a, tuple) and a and a[0] == "agg" and str(a[1]).endswith("ChunkId")]
                rv_ = raw[0][3][0] if raw else None
                src = call_arg(rv_, 0) if rv_ is not None and call_is(rv_, r"Option::<T>::unwrap_or_default$|Option::<T>::unwrap_or$") else None
                assigns = carried_assignments(g, P.live, src) if src is not None else None
                if assigns is None and src is not None:
                    assigns = carried_assignments(g, P.live, strip_ids(src))
                if assigns:
                    some = [a for a in assigns if a[0] == "agg" and a[2] == "Some"]
                    none = [a for a in assigns if a[0] == "agg" and a[2] == "None"]
                    ok = bool(some) and len(some) + len(none) == len(assigns) and all(
                        contains(a, lambda x: call_is(x, r"Span::end$")) and
                        contains(a, lambda x: call_is(x, r"Segment::<C>::new$")) for a in some)
                    why = "; ".join(expr_s(a)[:80] for a in some)
        if ok:
            rep.ok("R05.3", "new open chunk id", "= end offset of the last recovered chunk's last segment (or 0 when there is none)", where=g.where(n))
        else:
            rep.violation("R05.3", "open|new-chunk-id-provenance", "new open chunk id",
                          "the chunk created at the end of open is not named by the end offset of the last recovered chunk: the next open "
                          "sees a gap or an overlap (%s)" % why, where=g.where(n))
    rep.floor("R05.3", "chunk creation in Op(open)", found, 1)

    # ---------------- R05.5 -------------------------------------------------------------
    import c10
    c10.r10_5(ctx, rep, M, rule="R05.5")

    # ---------------- R05.4 -------------------------------------------------------------
    # a crash between two unlinks must leave a gap-free suffix: oldest-first removal (C08's R08.1/R08.5 evaluated here too)
    rep.rule("R05.4", "chunk files are unlinked only by the worker and oldest-first, so a crash during removal leaves a gap-free suffix")
    import c08
    from c03 import _Filter
    c08.run(ctx, _Filter(rep, keep=("R08.1", "R08.5"), rename="R05.4/"))
    # R05.6 = R16.3 on the recovery cone: Option unwraps reached during replay are guarded by a test that implies Some
    import c16 as _c16
    _c16.r16_3(ctx, _Filter(rep, keep=("R16.3",), rename="R05.6/"), [(ctx.body_key(r"RaftLog::<T>::open$"), True)], floor=3,
               site_filter=lambda e: e[0] == "field")   # stored Options; vector/map unwraps are R05.1 patterns
